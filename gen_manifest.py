#!/usr/bin/env python3
"""Writes MANIFEST.json from the table below (kept in one place so the manifest is always schema-valid)."""
import json, os
HERE = os.path.dirname(os.path.abspath(__file__))
TECH = 'contract-based deductive verification: VCs generated from the real function ASTs (pyvc) against sidecar contracts, discharged by z3 5.1 then cvc5 1.4; counter-models replayed natively; bounded twin as labelled stand-in'
CLAIMED = {
	'C18': dict(
		level='proof',
		text='Every obligation (pre@call, post, loop invariant init/preservation, variant, exception-freedom) generated from the current source of the block-splitting helpers is discharged for all inputs; the quote-domination part of the no-cut-inside-quotes law is a labelled bounded stand-in.',
		note='pyvc encoding of the Python subset; z3/cvc5 soundness; spec functions in specs/brackets.py are the oracle; bounded parts listed in evidence.bounded_checks',
		ref='DESIGN.md §4 C18'),
	'C01': dict(
		level='proof',
		text='Claimed for the expression-grouping clause only. Closed obligations decided by evaluation on every run: for all 421 compositions of the 19 operator levels of the Python grammar (ternary, or, and, not, comparisons, | ^ &, shifts, + -, * %, unary - ~) in every operand position where Python needs no parentheses, the C++ text emitted by the real pipeline, read with C++ precedence, groups as Python groups the source. Proved (VC): on_not_compare parenthesises a binary operand, on_comparison parenthesises bitwise operands (the two places where the precedences differ and the code protects). Bounded: generated scalar functions compiled with g++ -std=c++20 and run against CPython. Comparison chains are a recorded known finding (F-C01-c). Classes, containers, strings, closures, exceptions and type inference are not decided.',
		note='pairwise protection extends to any depth only by the compositional-rendering argument (not machine-checked); C++ precedence table and g++ trusted; most of the statement is outside what contracts can reach (see not decided parts)',
		ref='DESIGN.md §4 C01, §9'),
	'C04': dict(
		level='proof',
		text='Proved for all inputs, at the level of the session tables: Entrypoints.load/unload, Modules.load (with its recursive loading of libraries and imports) / unload, NodeResolver.resolve/clear, Memo.get, Memoize.get and the SymbolDB operations (incl. unload) are maps with exact frames - a look-up of something present returns the stored object and changes nothing, loading adds only the requested entries and never replaces a loaded module, entry point, node instance or memoised value, unloading removes exactly the requested entry; under a memo key the first factory decides the value. The statement itself (every transpile inside any history of load / transpile / unload operations or interactive submissions equals the fresh-process result, for every hash seed and target order) is a labelled bounded twin on the real pipeline.',
		note='loaders, constructors, match_feature, factories assumed to touch the tables only through the contracted operations; determinism between the tables (inference, templates, iteration orders) bounded only',
		ref='DESIGN.md §4 C04, §9'),
	'C05': dict(
		level='proof',
		text='Proved for all inputs: storing and restoring symbols are both gated on CacheSetting.enabled (no symbols file is read or written with caching disabled), the disabled proxy only runs the factory, the enabled proxy returns the file under the key\'s path or the factory value, and the symbol-cache key is an injective function of the ordered content hashes of the module and its direct imports. The whole-history statement (warm == cold over edit/run/clear histories, truncated cache files) is a bounded pipeline twin on the real CLI, never counted as proved; the transitive-import case is known finding F-C05-a.',
		note='md5 injective, file-system and json/pickle externals assumed; CacheProvider closure and save/load plumbing only in the bounded twin',
		ref='DESIGN.md §4 C05'),
	'C06': dict(
		level='proof',
		text='Proved for all inputs: the header written into an output is read back to the same value (MetaHeader.__init__/to_json/to_header_str/from_json/try_from_content on the shape entrypoint.j2 writes), headers compare equal exactly when all five recorded fields agree, a module is selected for regeneration iff no header is readable or a recorded field differs from the current one, and the output-path rule equals its specification (first matching entry; per-rule injectivity lemma). The whole-run equality with a forced run additionally needs the dependency frame of transpile(): known finding F-C06-a, replayed on the real CLI on every run.',
		note='json / md5 / os.path.join / re as assumed externals (json facts bounded-checked); file I/O assumed; cross-rule path distinctness needs a configuration precondition',
		ref='DESIGN.md §4 C06'),
	'C07': dict(
		level='proof',
		text='Proved at the normalisation boundaries: SyntaxParserOfLark.__load_entry lets only Errors.Syntax escape on both the on-disk and the in-memory branch although parser and source provider may raise anything; Procedure.__emit turns whatever a handler raises into an application error; the quotation line loader does not fail when the reported line exists. A bounded CLI twin feeds unparsable files through the real pipeline. Exception freedom of the code between the boundaries and termination are not decided.',
		note='externals that "may raise anything" (lark, source provider, handlers) are over-approximated; raises sets are computed from the real ASTs including every implicit failure source',
		ref='DESIGN.md §4 C07'),
	'C08': dict(
		level='proof',
		text='Partial: DSN.elements / elem_counts / relativefy (non-prefix and equal cases) are proved against element-structure specifications, with the split-over-concatenation lemmas by induction; the prefix case of relativefy is a labelled bounded clause. The name-handling code that iterates and mutates aliased dicts (VarsCollector) and the node definition classes are reached only by two bounded twins (sibling-scope collection; node tree commutes with five families of injective renamings). The whole-pipeline commutation with renaming is not decided by this family.',
		note='parametricity meta-argument not machine-checked; most of the statement (relational, whole program) is bounded or undecided -- see evidence.bounded_checks',
		ref='DESIGN.md §4 C08'),
	'C09': dict(
		level='proof',
		text='Procedure.__stack_pop/__result/__make_event/__emit/__run_action/__action/__exec_impl/exec are verified against the stack discipline over an abstract Node interface: the event holds, per declared property, exactly the results of that property\'s nodes (list vs single, source order), exactly those are consumed, one result is pushed, results below are untouched, exec restores the stack of stacks. The induction over the whole tree and the node classes themselves are validated by a bounded monitor on real modules (never counted as proved).',
		note='abstract Node interface (duplicate-free prop_keys: closed check by evaluation); one statement of __make_event is read through a stated rewrite; Middleware.emit assumed',
		ref='DESIGN.md §4 C09'),
	'C10': dict(
		level='proof',
		text='Partial: proved are the exception contract of Nodes.ancestor (an absent tag is NodeNotFound) and, for every memoised query (parent, ancestor, children, expand, values), the derived obligation that the memo key determines all inputs the cached factory closes over (so an answer cannot depend on what was asked before). The bijection pluck ∘ full_pathfy, document-order ids, agreement of parent/children/siblings/ancestor/expand with the tree and query-order independence of the resolved class are a bounded twin over random trees (never counted as proved): the code recurses over third-party tree objects and iterates dicts.',
		note='Memoize.get transparency read from memo2.py; regex de-indexing and path element access assumed; most of the statement is bounded',
		ref='DESIGN.md §4 C10'),
	'C11': dict(
		level='proof',
		text='Proved function by function over abstract pattern / token / tree identities: the step accounting of the matching engine (_match_terminal, _match_and, _match_or, _match_repeat, _match_entry, _match_symbol: a match never reaches before the first token, a failed match consumes nothing, a terminal consumes exactly the token at the cursor), SyntaxParser.parse returns a tree only when the match of the entry point consumed every token and raises Errors.Syntax otherwise, keywords never match a regexp terminal (_compare_token), the unwrap rules [1] / [*] (_unwrap_children against a recursive spec), and the error summary names a token of the input and quotes a line that exists (ErrorCollector, no IndexError). Agreement of the trees with CPython\'s ast is a labelled bounded twin over generated sentences and mutants.',
		note='pattern entries, tokens and tree entries as opaque identities with observers; tokenizer spans assumed (SourceMap.make proved in C16/C13); termination of the mutually recursive matcher not decided; tree agreement bounded',
		ref='DESIGN.md §4 C11, §9'),
	'C12': dict(
		level='proof',
		text='Closed obligations decided by evaluation on every run: parsing data/syntax/gram.lark with the built-in rules yields the built-in rules, and compiling gram.lark / py_gram.lark yields the checked-in rule modules. Proved for all inputs: Pattern.make reads exactly the three textual forms (quoted string with the four control-code escapes, slashed regexp, symbol) and refuses anything else; Prettier._pretty_pattern / _deco_repeat write those forms; reading a printed pattern gives the pattern back (lemma over the two contracts); rule names carry the unwrap marker exactly when the rule text does (ASTSerializer._for_rule_name) and Rules.unwrap_by / __getitem__ find a pattern under that name. The recursive rebuild, the group printer and the parsing engine are a labelled bounded twin (print -> parse -> rebuild on shipped and generated grammars; compiled vs original rules on generated sentences).',
		note='re.fullmatch as an uninterpreted predicate; enum members by value; recursion over tuple / pattern trees outside the VC subset; rule modules compared as code without docstrings',
		ref='DESIGN.md §4 C12, §9'),
	'C13': dict(
		level='proof',
		text='Proved per token class against Python\'s lexical rules on the supported ASCII subset: names and decimal numbers are maximal runs; a single-quoted (plain/r/f, either quote) literal ends at the first quote preceded by an even number of backslashes; every token\'s text is the source slice and its span the standard (line, column) of both ends; bracket depth and block bookkeeping emit exactly (new depth - old depth) block markers, none inside brackets, under the consistent-layout precondition. The operator table is a closed check against CPython\'s table. Whole-sequence equality with CPython\'s tokenize, triple-quoted literals, comments/post-filter and the layout metamorphism are a bounded twin (never counted as proved).',
		note='Python lexical rules as specified in specs/lexspec.py; handler-table dispatch (_rebuild, parse_impl) and regex post-filter outside the VC subset',
		ref='DESIGN.md §4 C13'),
	'C14': dict(
		level='proof',
		text='Proved for all tables whose type-reference graph is acyclic: SymbolDB._order_keys_recursive / _order_keys list the keys of a module so that every key stands after every key its row refers to (its type and its type arguments at any depth, within the module) and every key of the module is listed - the export side of "import never refers to a key not yet present"; __getitem__/__setitem__/completed/on_complete/import_json/unload are proved against the table view with frames (imported keys present, their module completed, existing symbols and marks retained; unload removes exactly the keys and the mark of the module, raises nothing also for a half-loaded module). Reflections are opaque identities with axiomatised reachability. The rebuild of nested attributes on import and the symbol-by-symbol comparison are a labelled bounded twin over real and generated modules.',
		note='reachability through attrs axiomatised by its unfolding plus a height function; dict iteration as an abstract list; deserialize assumed; acyclic key graph / type-entry invariants are preconditions validated natively by the twin',
		ref='DESIGN.md §4 C14, §9'),
	'C15': dict(
		level='proof',
		text='Proved over lark entries and stored entries as opaque identities with observers: EntryOfLark.source_map reports the recorded span when it is usable and (0,0)-(0,0) otherwise; Serialization.__dumps produces the stored form of an entry (name, value, the span the view reports, children pointwise, None slots); Serialization.__loads builds an entry carrying exactly the stored data (every meta / token position assignment is the real statement); and by induction over the tree (lemma_roundtrip) the entry loaded from the stored form of e looks the same through EntryOfLark as e (name, emptiness, children, value, source map at every node). The same statement on real lark objects through the JSON text is a labelled bounded twin (exhaustive for small trees, real parse trees), which also validates the observer reading of the lark classes.',
		note='lark.Tree / Token / Meta semantics as observers and constructors (assumed, validated by the twin); unset token positions read as 0; JSON plumbing assumed; finite trees',
		ref='DESIGN.md §4 C15, §9'),
	'C16': dict(
		level='proof',
		text='Token.SourceMap.make is proved to record, for every source and 0 <= begin <= end <= len, exactly the standard (line, column) of both offsets (counting/rfind lemmas by induction); Quotation.__cause_range and __build_line_mark are proved to mark columns [begin, end) of the reported line. Spans produced by the parser are assumed; survival through the cache encoding is a bounded stand-in shared with C15.',
		note='lark propagate_positions assumed; file I/O of the quotation not covered; cache clause bounded',
		ref='DESIGN.md §4 C16'),
	'C17': dict(
		level='proof',
		text='Every handler of the literal evaluator is verified against a CPython-semantics spec of the operator set (type promotion, int/int true division, refusal): a normal return implies CPython evaluates the same operands without raising, to the same value and type. Floats and bitwise operators are uninterpreted (dispatch contracts); string denotations and literal parsing are a labelled bounded twin against ast.literal_eval / eval.',
		note='floats uninterpreted; float(str)/int(str) parsing facts trusted; on_var/on_relay (member references via reflections) assumed; known finding F-C17-a (raw-text concatenation of string literals) excluded by predicate',
		ref='DESIGN.md §4 C17'),
	'C19': dict(
		level='proof',
		text='Every DI / LazyDI operation (can_resolve, bind, unbind, rebind, resolve, invoke, _clone, combine; LazyDI overrides and the inherited methods under LazyDI dispatch) is verified against the abstract view (bindings, instances, by-name definitions) with well-formedness "one instance per binding generation" and explicit frames; a reference-model twin over bounded operation histories supplies concrete failing histories and is never counted as proved.',
		note='assumed externals for Python plumbing (norm, to_fullyname/load_module_path inverse, factory call, annotation pluck, signature check); one record type for the class family; known finding F-C19-a-lazy excluded by predicate',
		ref='DESIGN.md §4 C19'),
}
NOT_APPLICABLE = {
	'C02': 'equality of two parsers over all texts (lark LALR engine interpreting grammar data vs CPython): no function contract of tranp carries it; only differential testing could, which is a different family (DESIGN.md §5)',
	'C03': 'type soundness of the inference engine against CPython run-time types needs formal semantics of both languages and the stub library; not expressible as a contract over one call or data structure (DESIGN.md §5)',
}
PENDING = {p: 'designed in DESIGN.md §4, contracts not built yet in this round' for p in ['C01','C04','C11','C12','C14']}

def main():
	checks = []
	for pid, c in sorted(CLAIMED.items()):
		checks.append({
			'property_id': pid,
			'quick_cmd': f'./check {pid} --tier quick',
			'thorough_cmd': f'./check {pid} --tier thorough',
			'evidence_file': f'evidence/{pid}.json',
			'replay_cmd_template': f'./check {pid} --replay {{path}}',
			'engine': 'pyvc',
			'level_claimed': {'category': c['level'], 'text': c['text'], 'design_ref': c['ref']},
			'level_note': c['note'],
			'technique': TECH,
		})
	na = [{'property_id': p, 'reason': r} for p, r in sorted({**NOT_APPLICABLE, **{k: v for k, v in PENDING.items() if k not in CLAIMED}}.items())]
	m = {
		'version': 1,
		'setup_cmd': './setup.sh',
		'hooks': {'guard': 'ROGW_TRANP_VERIF', 'enable': 'no source hooks are needed: contracts are sidecar files and the functions are extracted from /repo on every run', 'baseline_off_cmd': 'cd /repo && /venv/bin/python -m pytest -ra -q -p no:cacheprovider --timeout=900 --continue-on-collection-errors', 'source_commits': [], 'add_only': True},
		'engines': [{'name': 'pyvc', 'path': 'pyvc/', 'serves_properties': sorted(CLAIMED), 'kind_free_text': 'verification-condition generator for a Python subset (ast -> z3/cvc5), sidecar contracts in contracts/, spec functions in specs/'}],
		'checks': checks,
		'not_applicable': na,
		'notes': 'Exit 0 held / 1 VIOLATION with replay / 3 machinery fault. unknown/timeouts are never violations. See DESIGN.md.',
	}
	json.dump(m, open(os.path.join(HERE, 'MANIFEST.json'), 'w'), indent=1)

if __name__ == '__main__':
	main()
