"""C19 — The dependency container follows its simple reference model.

Abstract view of a container: B = __injectors (bindings), I = __instances, D = __definitions (lazy, by name).
wf(c): every instance belongs to a current binding and was made by that binding's factory ("one instance per
binding generation").  Every public operation is specified against this view, with its frame.
"""
from pyvc.api import contract, Loop
from specs.di import DIPY
import specs.di  # noqa: F401

LEVEL = 'proof'
NORM = {"getattr(symbol, '__origin__', symbol)": 'norm(symbol)'}

# ------------------------------------------------------------------------------------------------ DI
contract(DIPY, 'DI.can_resolve', 'C19', types={'self': 'DI', 'symbol': 'Sym'}, rewrites=NORM,
	ensures=['result == (norm(symbol) in self.__injectors)'])

contract(DIPY, 'DI.bind', 'C19', types={'self': 'DI', 'symbol': 'Sym', 'injector': 'Fac'}, rewrites=NORM,
	modifies=['self.__injectors'],
	raises={'ValueError': 'norm(symbol) in self.__injectors'},
	ensures=['self.__injectors == {**old(self.__injectors), norm(symbol): injector}'])

contract(DIPY, 'DI.unbind', 'C19', types={'self': 'DI', 'symbol': 'Sym'}, rewrites=NORM,
	modifies=['self.__injectors', 'self.__instances'],
	requires=['wf(self)'],
	raises={},
	ensures=[
		'all((s in self.__injectors) == (s in old(self.__injectors) and s != norm(symbol)) for s in universe("Sym"))',
		'all(implies(s in self.__injectors, self.__injectors[s] == old(self.__injectors)[s]) for s in universe("Sym"))',
		'all((s in self.__instances) == (s in old(self.__instances) and s != norm(symbol)) for s in universe("Sym"))',
		'all(implies(s in self.__instances, self.__instances[s] == old(self.__instances)[s]) for s in universe("Sym"))',
		'wf(self)',
	])

contract(DIPY, 'DI.rebind', 'C19', types={'self': 'DI', 'symbol': 'Sym', 'injector': 'Fac'}, rewrites=NORM,
	modifies=['self.__injectors', 'self.__instances'],
	requires=['wf(self)'],
	raises={},
	ensures=[
		# Top: re-binding discards the old instance and installs the new factory; every other symbol is untouched
		'norm(symbol) not in self.__instances',
		'self.__injectors == {**old(self.__injectors), norm(symbol): injector}',
		'all(implies(s != norm(symbol), (s in self.__instances) == (s in old(self.__instances))) for s in universe("Sym"))',
		'all(implies(s in self.__instances, self.__instances[s] == old(self.__instances)[s]) for s in universe("Sym"))',
		'wf(self)',
	])

INVOKE_REWRITES = {
	**NORM,
	'to_fullyname(factory)': 'fullyname(factory)',
	'self.__to_annotated(factory)': 'factory',
	'self.__pluck_annotations(annotated)': 'pluck(annotated)',
	'annos.values()': 'annos',
	'self.__assert_invoke(factory, annos, curried_args, *remain_args)': 'check_invoke(factory, len(curried_args), remain_args)',
	'factory(*curried_args, *remain_args)': 'call_factory(factory, curried_args, remain_args)',
}

contract(DIPY, 'DI.invoke', 'C19', types={'self': 'DI', 'factory': 'Fac', 'remain_args': 'list[Obj]', 'curried_args': 'list[Obj]', 'annotated': 'Fac', 'return': 'Obj'},
	rewrites=INVOKE_REWRITES,
	modifies=['self.__instances', 'self.__invocations'],
	requires=['wf(self)'],
	raises={'ValueError': None},  # first-call signature mismatch, or from a nested factory's own invoke
	ensures=[
		'wf(self)', 'grows(old(self), self)',
		'maker(result) == factory',
	],
	loops={0: Loop(invariant=[
		'wf(self)', 'grows(old(self), self)', '0 <= _i', '_i <= len(_seq)', 'len(curried_args) == _i',
		# Top: the curried arguments are the instances of the leading resolvable annotations, in order
		'all(norm(_seq[j]) in self.__injectors and norm(_seq[j]) in self.__instances and curried_args[j] == self.__instances[norm(_seq[j])] for j in range(_i))',
	])})

contract(DIPY, 'DI.resolve', 'C19', types={'self': 'DI', 'symbol': 'Sym', 'return': 'Obj'}, rewrites=NORM,
	modifies=['self.__instances', 'self.__invocations'],
	requires=['wf(self)'],
	raises={'ValueError': None},
	ensures=[
		# Top: an instance of the current binding's factory; the existing one if there is one (so two resolves agree)
		'norm(symbol) in self.__injectors',
		'norm(symbol) in self.__instances and result == self.__instances[norm(symbol)]',
		'maker(result) == self.__injectors[norm(symbol)]',
		'implies(norm(symbol) in old(self.__instances), result == old(self.__instances)[norm(symbol)])',
		'wf(self)', 'grows(old(self), self)',
	])


contract(DIPY, 'DI._clone', 'C19', types={'self': 'DI', 'return': 'DI'},
	rewrites={'self.__class__()': 'fresh_di()'},
	ensures=['result.__instances == self.__instances', 'result.__injectors == self.__injectors',
		'all(p not in result._LazyDI__definitions for p in universe("str"))'])

COMBINE_ENSURES = [
	# Top (statement): the right operand's bindings and instances win
	'result._DI__injectors == {**self._DI__injectors, **other._DI__injectors}',
	'all(implies(s in other._DI__instances, s in result._DI__instances and result._DI__instances[s] == other._DI__instances[s]) for s in universe("Sym"))',
	# Top: resolving any symbol on the result yields an instance made by the factory bound in the result (one instance per binding generation)
	'wf(result)',
	# the left operand's instances survive for symbols the right operand does not bind
	'all(implies(s in self._DI__instances and s not in other._DI__injectors, s in result._DI__instances and result._DI__instances[s] == self._DI__instances[s]) for s in universe("Sym"))',
	'all(implies(s in result._DI__instances, s in self._DI__instances or s in other._DI__instances) for s in universe("Sym"))',
]

contract(DIPY, 'DI.combine', 'C19', types={'self': 'DI', 'other': 'DI', 'return': 'DI'},
	rewrites={'isinstance(self, other.__class__)': 'same_family(self, other)'},
	requires=['wf(self)', 'wf(other)'],
	raises={'TypeError': 'not same_family(self, other)'},
	ensures=COMBINE_ENSURES)

# ------------------------------------------------------------------------------------------------ LazyDI
LZ = {**NORM, 'to_fullyname(self._acceptable_symbol(symbol))': 'symname(norm(symbol))'}

contract(DIPY, 'LazyDI.can_resolve', 'C19', types={'self': 'DI', 'symbol': 'Sym'}, rewrites=LZ,
	ensures=['result == (symname(norm(symbol)) in self.__definitions)'])

contract(DIPY, 'LazyDI.bind', 'C19', types={'self': 'DI', 'symbol': 'Sym', 'injector': 'Fac'}, rewrites=LZ,
	modifies=['self._DI__injectors', 'self.__definitions'],
	requires=['lz(self)'],
	raises={'ValueError': 'norm(symbol) in self._DI__injectors'},
	ensures=[
		'self._DI__injectors == {**old(self._DI__injectors), norm(symbol): injector}',
		'implies(symname(norm(symbol)) in old(self.__definitions), self.__definitions == old(self.__definitions))',
		'implies(symname(norm(symbol)) not in old(self.__definitions), self.__definitions == {**old(self.__definitions), symname(norm(symbol)): injector})',
		'lz(self)',
	])

contract(DIPY, 'LazyDI.unbind', 'C19', types={'self': 'DI', 'symbol': 'Sym'}, rewrites=LZ,
	modifies=['self._DI__injectors', 'self._DI__instances', 'self.__definitions'],
	requires=['wf(self)', 'lz(self)'],
	raises={},
	ensures=[
		# Top: after unbind the symbol is unknown, by name and by binding; everything else is untouched
		'symname(norm(symbol)) not in self.__definitions',
		'norm(symbol) not in self._DI__injectors', 'norm(symbol) not in self._DI__instances',
		'all(implies(p != symname(norm(symbol)), (p in self.__definitions) == (p in old(self.__definitions))) for p in universe("str"))',
		'all(implies(p in self.__definitions, self.__definitions[p] == old(self.__definitions)[p]) for p in universe("str"))',
		'all(implies(s != norm(symbol), (s in self._DI__injectors) == (s in old(self._DI__injectors)) and (s in self._DI__instances) == (s in old(self._DI__instances))) for s in universe("Sym"))',
		'all(implies(s in self._DI__injectors, self._DI__injectors[s] == old(self._DI__injectors)[s]) for s in universe("Sym"))',
		'all(implies(s in self._DI__instances, self._DI__instances[s] == old(self._DI__instances)[s]) for s in universe("Sym"))',
		'wf(self)', 'lz(self)',
	])

contract(DIPY, 'DI.rebind', 'C19', dispatch='LazyDI', types={'self': 'DI', 'symbol': 'Sym', 'injector': 'Fac'}, rewrites=LZ,
	modifies=['self._DI__injectors', 'self._DI__instances', 'self._LazyDI__definitions'],
	requires=['wf(self)', 'lz(self)'],
	raises={},
	ensures=[
		'norm(symbol) not in self.__instances',
		'self.__injectors == {**old(self.__injectors), norm(symbol): injector}',
		# Top: the new registration wins by name too
		'eff_bound(self, norm(symbol)) and eff(self, norm(symbol)) == injector',
		'wf(self)', 'lz(self)',
	])

PROXY = {**LZ,
	'load_module_path(symbol_path)': 'load_path(symbol_path)',
	'load_module_path(injector)': 'fac_of_path(injector)',
}

contract(DIPY, 'DI.invoke', 'C19', dispatch='LazyDI', types={'self': 'DI', 'factory': 'Fac', 'remain_args': 'list[Obj]', 'curried_args': 'list[Obj]', 'annotated': 'Fac', 'return': 'Obj'},
	rewrites={**INVOKE_REWRITES, **LZ},
	modifies=['self._DI__instances', 'self._DI__invocations', 'self._DI__injectors'],
	requires=['wf(self)', 'lz(self)'],
	raises={'ValueError': None},
	ensures=['wf(self)', 'lz(self)', 'grows(old(self), self)', 'maker(result) == factory',
		'all(implies(s in old(self._DI__injectors), s in self._DI__injectors and self._DI__injectors[s] == old(self._DI__injectors)[s]) for s in universe("Sym"))',
		'all(implies(s in self._DI__injectors and s not in old(self._DI__injectors), self._DI__injectors[s] == fac(self._LazyDI__definitions[symname(s)])) for s in universe("Sym"))'],
	loops={0: Loop(invariant=[
		'wf(self)', 'lz(self)', 'grows(old(self), self)', '0 <= _i', '_i <= len(_seq)', 'len(curried_args) == _i',
		'all(implies(s in old(self._DI__injectors), s in self._DI__injectors and self._DI__injectors[s] == old(self._DI__injectors)[s]) for s in universe("Sym"))',
		'all(implies(s in self._DI__injectors and s not in old(self._DI__injectors), self._DI__injectors[s] == fac(self._LazyDI__definitions[symname(s)])) for s in universe("Sym"))',
		'all(norm(_seq[j]) in self._DI__instances and curried_args[j] == self._DI__instances[norm(_seq[j])] for j in range(_i))',
	])})

LAZY_RESOLVE_ENSURES = [
	'norm(symbol) in self._DI__injectors',
	'norm(symbol) in self._DI__instances and result == self._DI__instances[norm(symbol)]',
	'maker(result) == self._DI__injectors[norm(symbol)]',
	'implies(norm(symbol) in old(self._DI__instances), result == old(self._DI__instances)[norm(symbol)])',
	# Top: a lazy registration that was not yet materialised resolves through the factory its definition denotes
	'implies(norm(symbol) not in old(self._DI__injectors), self._DI__injectors[norm(symbol)] == fac(old(self._LazyDI__definitions)[symname(norm(symbol))]))',
	'implies(norm(symbol) in old(self._DI__injectors), self._DI__injectors[norm(symbol)] == old(self._DI__injectors)[norm(symbol)])',
	'wf(self)', 'lz(self)', 'grows(old(self), self)',
	'all(implies(s in old(self._DI__injectors), s in self._DI__injectors and self._DI__injectors[s] == old(self._DI__injectors)[s]) for s in universe("Sym"))',
	'all(implies(s in self._DI__injectors and s not in old(self._DI__injectors), self._DI__injectors[s] == fac(self._LazyDI__definitions[symname(s)])) for s in universe("Sym"))',
]

contract(DIPY, 'DI.resolve', 'C19', dispatch='LazyDI', types={'self': 'DI', 'symbol': 'Sym', 'return': 'Obj'}, rewrites=LZ,
	modifies=['self._DI__instances', 'self._DI__invocations', 'self._DI__injectors'],
	requires=['wf(self)', 'lz(self)'],
	raises={'ValueError': None},
	ensures=['norm(symbol) in old(self._DI__injectors)'] + [e for e in LAZY_RESOLVE_ENSURES if 'not in old(self._DI__injectors), self._DI__injectors[norm(symbol)]' not in e])

contract(DIPY, 'LazyDI.resolve', 'C19', types={'self': 'DI', 'symbol': 'Sym', 'return': 'Obj'}, rewrites=PROXY,
	modifies=['self._DI__instances', 'self._DI__invocations', 'self._DI__injectors'],
	requires=['wf(self)', 'lz(self)'],
	raises={'ValueError': None},
	ensures=LAZY_RESOLVE_ENSURES + [
		# Top: unknown symbols raise (a normal return implies the symbol was known by name or bound)
		'symname(norm(symbol)) in old(self._LazyDI__definitions) or norm(symbol) in old(self._DI__injectors)'])

contract(DIPY, 'LazyDI._clone', 'C19', types={'self': 'DI', 'return': 'DI'},
	rewrites={'self.__class__()': 'fresh_di()'},
	ensures=['result._DI__instances == self._DI__instances', 'result._DI__injectors == self._DI__injectors', 'result.__definitions == self.__definitions'])

contract(DIPY, 'DI.combine', 'C19', dispatch='LazyDI', types={'self': 'DI', 'other': 'DI', 'return': 'DI'},
	rewrites={'isinstance(self, other.__class__)': 'same_family(self, other)'},
	requires=['wf(self)', 'wf(other)'],
	raises={'TypeError': 'not same_family(self, other)'},
	ensures=COMBINE_ENSURES + ['result._LazyDI__definitions == self._LazyDI__definitions'])

contract(DIPY, 'LazyDI.combine', 'C19', types={'self': 'DI', 'other': 'DI', 'return': 'DI'},
	known=['F-C19-a-lazy'],
	requires=['wf(self)', 'wf(other)', 'lz(self)', 'lz(other)'],
	raises={'TypeError': 'not same_family(self, other)'},
	ensures=COMBINE_ENSURES + [
		# Top: by-name registrations of the right operand win as well
		'result._LazyDI__definitions == {**self._LazyDI__definitions, **other._LazyDI__definitions}',
		'lz(result)',
		# Top: a symbol the right operand defines by name resolves, in the result, through the right operand's definition
		'all(implies(norm(s) == s and eff_bound(other, s), eff_bound(result, s) and eff(result, s) == eff(other, s)) for s in universe("Sym"))',
	])


# ------------------------------------------------------------------------------------------------ bounded twin (never counted as proved)
TRUSTED_BASE = ['externals of specs/di.py (norm, symname/load_path inverse, maker/call_factory, pluck, check_invoke): assumed contracts on Python plumbing',
	'one SMT record type stands for the DI/LazyDI class family; virtual calls are resolved per dispatch variant (DI.m@LazyDI contracts)']
ASSUMPTIONS = ['LazyDI.instantiate, __register/__unregister bodies are inlined; DI.__to_annotated/__pluck_annotations/__assert_invoke are replaced by assumed externals',
	'termination of resolve/invoke recursion (cyclic dependencies) is not proved']


def extra_checks(tier, seed, active_known):
	from pyvc.driver import Extra
	from twins import di_twin
	out = []
	for lazy in (False, True):
		n, found = di_twin.search(lazy, tier, seed)
		unknown = [f for f in found if not (di_twin.classify(f) and 'F-C19-a-lazy' in active_known)]
		x = Extra(name=f'reference-model twin ({"LazyDI" if lazy else "DI"})', kind='bounded', ok=not unknown, cases=n,
			bound=f'all histories of <= {3 if tier == "quick" else 4} operations over 2 symbols / 4 factories / 9 initial setups, then random up to the cap',
			detail=f'{len(found)} mismatching histories, {len(found) - len(unknown)} of them instances of listed known findings',
			samples=[{'history': found[0]}] if found else [{'history': {'lazy': lazy, 'ops': [['resolve', 'L', 'A'], ['combine'], ['resolve', 'C', 'A']], 'agrees': True}}])
		if unknown:
			w = unknown[0]
			x.violation = {'what': f'container diverges from the reference model: {w["why"]}', 'function': 'rogw/tranp/lang/di.py:' + ('LazyDI' if lazy else 'DI'), 'inputs': w, 'clause': 'observations(container) == observations(reference model)'}
			x.finding_key = f'di-twin|{"lazy" if lazy else "eager"}|{di_twin.classify(w) or "unclassified"}'
		out.append(x)
	return out


def known_lazy_combine(kf):
	"""Witness of F-C19-a-lazy: replays the stored history on the real LazyDI."""
	from twins import di_twin
	w = kf['witness']
	ok, why = di_twin.run_history(True, w['left'], w['right'], [tuple(o) for o in w['ops']])
	return not ok


def replay_hook(d):
	from twins import di_twin
	w = d['inputs']
	if not isinstance(w, dict) or 'ops' not in w:
		return None
	ok, why = di_twin.run_history(w['lazy'], w['left'], w['right'], [tuple(o) for o in w['ops']])
	return ('ok: history agrees with the reference model' if ok else f'violated: {why}')
