"""C17 — Folding constant expressions gives the value Python gives.

"A different value is never produced": for every handler, a *normal return* implies that CPython evaluates the same
operands without raising and to the same value and type; raising (refusal) is always allowed.
Floats are uninterpreted (dispatch contracts); string denotations are checked by the bounded twin against CPython.
"""
from pyvc.api import contract, Loop, native
from specs.pyeval import EVAL
import specs.pyeval  # noqa: F401

LEVEL = 'proof'
T = {'self': 'LiteralEvaluator', 'node': 'Node'}
REFUSE = {'Errors.OperationNotAllowed': None, 'ValueError': None, 'ZeroDivisionError': None, 'OverflowError': None, 'MemoryError': None}

contract(EVAL, 'LiteralEvaluator._calc', 'C17', types={**T, 'left': 'float', 'right': 'float', 'return': 'float'}, inline_calls=True,
	raises={'AssertionError': "op not in ['+', '-', '/', '*', '%']", 'ZeroDivisionError': None},
	ensures=['result == float_op(left, op, right)', "implies(op in ['/', '%'], not fzero(right))"])

contract(EVAL, 'LiteralEvaluator._bitwise', 'C17', types={**T}, inline_calls=True,
	raises={'AssertionError': "op not in ['|', '^', '&', '<<', '>>']", 'ValueError': None},
	ensures=['result == int_op(left, op, right)', "implies(op in ['<<', '>>'], right >= 0)"])

contract(EVAL, 'LiteralEvaluator._allow_string', 'C17', types={**T}, raises={},
	ensures=["result == (len(string) >= 2 and string[0] in ['\"', \"'\"] and string[len(string) - 1] in ['\"', \"'\"])"])

contract(EVAL, 'LiteralEvaluator._cat', 'C17', types={**T}, known=['F-C17-a'],
	requires=['len(left) >= 2', 'len(right) >= 2'],
	raises={},
	ensures=['result == left[0] + left[1:len(left) - 1] + right[1:len(right) - 1] + left[0]'],
	# Top: the folded literal denotes the concatenation CPython computes for the two literals
	bounded_ensures=['implies(is_plain_literal(left) and is_plain_literal(right), same_value(result, denote(left) + denote(right)))'])

contract(EVAL, 'LiteralEvaluator._op_bin_each', 'C17', known=['F-C17-a'], types={**T, 'elements': 'list[Value]', 'left': 'Value', 'right': 'Value', 'return': 'Value'},
	requires=['len(elements) >= 1', 'len(elements) % 2 == 1', 'all(isinstance(elements[k], str) for k in range(len(elements)) if k % 2 == 1)',
		# string operands are string-literal tokens (they contain their quotes) or the empty placeholder on_var returns
		'all(implies(isinstance(elements[k], str), elements[k] == "" or \'"\' in elements[k] or "\'" in elements[k]) for k in range(len(elements)) if k % 2 == 0)'],
	raises=REFUSE,
	ensures=[
		# Top: numeric chains -- the value and type CPython gives, and CPython does not raise where the fold returns
		'implies(is_num(elements[0]), fold_ok(elements, len(elements)) and result == fold(elements, len(elements)))',
		# dispatch: a string result only from string operands joined by + (mixed operand kinds are refused)
		"implies(not is_num(elements[0]), all(isinstance(elements[k], str) for k in range(len(elements))) and all(elements[k] == '+' for k in range(len(elements)) if k % 2 == 1) and isinstance(result, str))",
	],
	bounded_ensures=['implies(chain_in_domain(elements), py_chain_value(elements) is not None and same_value(result, py_chain_value(elements)))'],
	loops={0: Loop(
		invariant=[
			'1 <= index', 'index <= len(elements) + 1', 'index % 2 == 1',
			'implies(isinstance(left, str), left == "" or \'"\' in left or "\'" in left)',
			'implies(is_num(elements[0]), fold_ok(elements, index) and left == fold(elements, index))',
			"implies(not is_num(elements[0]), isinstance(left, str) and all(isinstance(elements[k], str) for k in range(index)) and all(elements[k] == '+' for k in range(index) if k % 2 == 1))",
		],
		decreases='len(elements) + 1 - index')})

for _h in ['on_or_bitwise', 'on_xor_bitwise', 'on_and_bitwise', 'on_shift_bitwise', 'on_sum', 'on_term']:
	contract(EVAL, f'LiteralEvaluator.{_h}', 'C17', types={**T, 'elements': 'list[Value]', 'return': 'Value'},
		requires=['len(elements) >= 1', 'len(elements) % 2 == 1', 'all(isinstance(elements[k], str) for k in range(len(elements)) if k % 2 == 1)',
		# string operands are string-literal tokens (they contain their quotes) or the empty placeholder on_var returns
		'all(implies(isinstance(elements[k], str), elements[k] == "" or \'"\' in elements[k] or "\'" in elements[k]) for k in range(len(elements)) if k % 2 == 0)'],
		raises=REFUSE,
		ensures=['implies(is_num(elements[0]), fold_ok(elements, len(elements)) and result == fold(elements, len(elements)))'])

contract(EVAL, 'LiteralEvaluator.on_factor', 'C17', types={**T, 'operator': 'Value', 'value': 'Value', 'return': 'Value'},
	raises={'Errors.OperationNotAllowed': 'not is_num(value)'},
	ensures=[
		# Top: unary sign: -v for '-', v otherwise, type preserved
		"implies(isinstance(value, int), isinstance(result, int) and result == (-value if operator == '-' else value))",
		"implies(isinstance(value, float), isinstance(result, float) and result == (-value if operator == '-' else value))",
	])

contract(EVAL, 'LiteralEvaluator.on_group', 'C17', types={**T, 'expression': 'Value', 'return': 'Value'}, raises={}, ensures=['result == expression'])
contract(EVAL, 'LiteralEvaluator.on_argument', 'C17', types={**T, 'label': 'Value', 'value': 'Value', 'return': 'Value'}, raises={}, ensures=['result == value'])
contract(EVAL, 'LiteralEvaluator.on_string', 'C17', types={**T, 'return': 'Value'}, raises={}, ensures=['result == node.tokens'])

contract(EVAL, 'LiteralEvaluator.on_terminal', 'C17', types={**T, 'return': 'Value'},
	raises={'Errors.OperationNotAllowed': "node.tokens not in ['+', '-', '/', '*', '%', '|', '^', '&', '<<', '>>']"},
	ensures=['result == node.tokens'])

contract(EVAL, 'LiteralEvaluator.on_integer', 'C17', types={**T, 'return': 'Value'},
	raises={'ValueError': None},
	ensures=[
		'isinstance(result, int)',
		# Top: a plain decimal literal folds to its decimal value
		"implies(node.tokens.isdigit(), result == int(node.tokens))",
	],
	bounded_ensures=['implies(py_int_literal(node.tokens) is not None, same_value(result, py_int_literal(node.tokens)))'])

contract(EVAL, 'LiteralEvaluator.on_float', 'C17', types={**T, 'return': 'Value'}, raises={'ValueError': None},
	ensures=['isinstance(result, float)', 'result == float(node.tokens)'])

contract(EVAL, 'LiteralEvaluator.on_func_call', 'C17', types={**T, 'calls': 'Value', 'arguments': 'list[Value]', 'return': 'Value'},
	requires=['len(arguments) >= 1'],
	raises={'Errors.OperationNotAllowed': "node.calls.tokens not in ['int', 'float', 'str']", 'ValueError': None, 'OverflowError': None},
	ensures=[
		"implies(node.calls.tokens == 'int', isinstance(result, int))",
		"implies(node.calls.tokens == 'int' and isinstance(arguments[0], int), result == arguments[0])",
		"implies(node.calls.tokens == 'float', isinstance(result, float))",
		"implies(node.calls.tokens == 'float' and isinstance(arguments[0], float), result == arguments[0])",
		"implies(node.calls.tokens == 'float' and isinstance(arguments[0], int), result == float(arguments[0]))",
		"implies(node.calls.tokens == 'str', isinstance(result, str))",
		"implies(node.calls.tokens == 'str' and isinstance(arguments[0], int), result == '\"' + str(arguments[0]) + '\"')",
	],
	# Top: scalar casts give CPython's value (string arguments are literal tokens; a string result is a literal token)
	bounded_ensures=["implies(node.calls.tokens in ['int', 'float', 'str'] and cast_in_domain(arguments[0]), py_cast(node.calls.tokens, arguments[0]) is not None and same_value(result, py_cast(node.calls.tokens, arguments[0])))"])


# ------------------------------------------------------------------------------------------------ bounded twin
TRUSTED_BASE = ['floats are an uninterpreted sort (fadd/fsub/fmul/fdiv/fmod/i2f; i2f(n) is zero iff n == 0); bitwise integer operators uninterpreted: the proved clauses are dispatch contracts',
	'float(s) accepts only non-empty strings without quote characters (CPython fact)', 'Node API (tokens, calls) as total functions']
ASSUMPTIONS = ['on_var / on_relay (references to other enum members through the reflection layer) are outside the contracts: assumed to return the folded value of the referenced initialiser',
	'string denotations (escape sequences) are checked only by the bounded twin against ast.literal_eval']


class _FakeNode:
	def __init__(self, tokens='', calls=None):
		self.tokens = tokens
		self.calls = calls

	def __repr__(self):
		return f'Node({self.tokens!r})'


def _evaluator():
	from rogw.tranp.implements.transpiler.evaluator import LiteralEvaluator
	return object.__new__(LiteralEvaluator)


def _prep(kw):
	if 'node' in kw and not isinstance(kw['node'], _FakeNode):
		nd = kw['node']
		if isinstance(nd, dict):
			calls = nd.get('calls')
			kw['node'] = _FakeNode(nd.get('tokens', ''), _FakeNode(calls['tokens']) if isinstance(calls, dict) else calls)
		else:
			kw['node'] = _FakeNode()
	return kw


def _mk(name):
	def call(**kw):
		kw.pop('self', None)
		return getattr(_evaluator(), name)(**_prep(kw))
	call.__name__ = f'_c17_{name}'
	native(call)
	_prep_named = lambda kw: _prep(kw)
	_prep_named.__name__ = f'_c17_{name}__prep'
	native(_prep_named)
	return call


for _n in ['_calc', '_bitwise', '_allow_string', '_cat', '_op_bin_each', 'on_factor', 'on_integer', 'on_func_call', 'on_terminal']:
	_mk(_n)
from pyvc.api import REG as _REG
for _c in list(_REG.contracts.values()):
	if 'C17' in _c.props and f'_c17_{_c.qualname.split(".")[-1]}' in _REG.replays:
		_c.replay = f'_c17_{_c.qualname.split(".")[-1]}'

_LITS = ['\'say "hi"\'', '"it\'s"', '"a"', "'b'", '"a\\"', '"x y"', '"\\1"', '"2"', '"\\x4"', '"1"', '"\\""', "'it\\'s'", '""', '"\\u00e"', '"9"', '"\\N{DIGIT ONE"', '"}"']
_NUMS = [0, 1, 2, 7, -3, 255, 2 ** 53 + 1, 10 ** 20, 0.5, 1.5, -2.0, 3.0, 1e308]
_OPS = ['+', '-', '/', '*', '%', '|', '^', '&', '<<', '>>']


def gen_chain(rnd, tier):
	while True:
		k = rnd.choice([1, 2, 2, 3])
		kind = rnd.random()
		pool = _NUMS if kind < 0.6 else (_LITS if kind < 0.85 else _NUMS + _LITS)
		els = [rnd.choice(pool)]
		for _ in range(k - 1):
			els += [rnd.choice(_OPS if kind < 0.6 else ['+', '+', '*', '-']), rnd.choice(pool)]
		yield {'self': None, 'node': {'tokens': 'chain'}, 'elements': els}


def gen_cat(rnd, tier):
	while True:
		yield {'self': None, 'left': rnd.choice(_LITS), 'right': rnd.choice(_LITS)}


def gen_cast(rnd, tier):
	while True:
		yield {'self': None, 'node': {'tokens': 'call', 'calls': {'tokens': rnd.choice(['int', 'float', 'str', 'bool'])}}, 'calls': 'x',
			'arguments': [rnd.choice(_NUMS + _LITS + ['"12"', '"1.5"', '" 7 "', '"1_0"', '"abc"'])]}


def gen_int(rnd, tier):
	toks = ['0', '7', '42', '0x10', '0XFF', '0b101', '0o17', '1_000', '00', '0x', '9' * 30, '0xdeadBEEF']
	while True:
		yield {'self': None, 'node': {'tokens': rnd.choice(toks)}}


def gen_factor(rnd, tier):
	while True:
		yield {'self': None, 'node': {'tokens': 'f'}, 'operator': rnd.choice(['-', '+', '~']), 'value': rnd.choice(_NUMS + ['"a"'])}


TWINS = {'LiteralEvaluator._op_bin_each': gen_chain, 'LiteralEvaluator._cat': gen_cat, 'LiteralEvaluator.on_func_call': gen_cast,
	'LiteralEvaluator.on_integer': gen_int, 'LiteralEvaluator.on_factor': gen_factor}


def extra_checks(tier, seed, active_known):
	from pyvc.driver import Extra
	from twins import evaluator_twin
	n, fails = evaluator_twin.run(tier, seed)
	x = Extra(name='one LiteralEvaluator over several modules (same path reloaded with other constants): every folded member reference equals CPython\'s value and type', kind='bounded', ok=not fails, cases=n,
		bound='4 (quick) / 30 (thorough) histories of 3 generated enum modules (members referring to other members and other enums, + * - | <<), 4 references each, one evaluator per history',
		detail=f'{len(fails)} differing values', samples=[{'reference': 'E1.B.value', 'verdict': 'equal to CPython'}])
	x.distinct = n
	if fails:
		x.violation = {'what': fails[0]['what'], 'function': 'rogw/tranp/implements/transpiler/evaluator.py:LiteralEvaluator.on_var / on_relay (member references)', 'inputs': fails[0], 'clause': 'folded value == CPython value (value and type), whatever was folded before'}
		x.finding_key = 'evaluator-history-twin'
	return [x]
