"""C06 — Non-forced runs leave every output equal to a forced run.

Proved here: the header round trip (what is written into an output is read back to the same value), the selection rule
(a module is regenerated iff force, no readable header, or the recorded header differs from the current one), and the
output-path rule.  The whole-run equality additionally needs `transpile(m)` to depend only on what the header records;
the header records the module's own hash only (known finding F-C06-a).
"""
from pyvc.api import contract, lemma, Loop, native
from specs.header import HDR, RUN
import specs.header  # noqa: F401

LEVEL = 'proof'
VAPP = '1.0.0'

contract(HDR, 'MetaHeader.__init__', 'C06', types={'self': 'MetaHeader', 'module_meta': 'ModuleMeta', 'transpiler_meta': 'TranspilerMeta', 'app_version': 'str | None'},
	modifies=['self'],
	raises={},
	ensures=[
		# Top: an explicitly given (recorded) application version is kept; only a missing one defaults to the running version
		'self.app_version == (app_version if app_version is not None and len(app_version) > 0 else Versions.app)',
		'self.module_meta == module_meta', 'self.transpiler_meta == transpiler_meta',
	])

contract(HDR, 'MetaHeader.to_json', 'C06', types={'self': 'MetaHeader'},
	rewrites={"json.dumps({'version': self.app_version, 'module': self.module_meta, 'transpiler': self.transpiler_meta}, separators=(',', ':'))": 'json_of(self.app_version, self.module_meta, self.transpiler_meta)'},
	raises={}, ensures=['result == header_json(self)'])

contract(HDR, 'MetaHeader.to_header_str', 'C06', types={'self': 'MetaHeader'}, raises={},
	ensures=["result == TAG + ': ' + header_json(self)"])

contract(HDR, 'MetaHeader.from_json', 'C06', types={'return': 'MetaHeader', 'raw': 'str'},
	rewrites={'json.loads(json_str)': 'json_str', "raw['module']": 'json_module(raw)', "raw['transpiler']": 'json_transpiler(raw)', "raw['version']": 'json_version(raw)'},
	requires=['len(json_version(json_str)) > 0'],
	raises={},
	ensures=['result.app_version == json_version(json_str)', 'result.module_meta == json_module(json_str)', 'result.transpiler_meta == json_transpiler(json_str)'])

@lemma('C06', requires=['len(c) == 1', '0 <= k', 'k <= p', 'p < len(s)', 's[p] == c', 'c not in s[k:p]'], ensures=['s.find(c, k) == p'])
def lemma_find_at(s: str, c: str, k: int, p: int):
	"""The first occurrence from k is at p when p holds the character and nothing before it does."""
	pass


@lemma('C06', requires=['s == x + y + z'], ensures=['s[len(x):len(x) + len(y)] == y', 'len(s) == len(x) + len(y) + len(z)'])
def lemma_mid(s: str, x: str, y: str, z: str):
	"""The middle part of a concatenation is the corresponding slice."""
	pass


contract(HDR, 'MetaHeader.try_from_content', 'C06',
	hints_entry=[
		"lemma_mid(content, pre + TAG + ':', ' ' + header_json(h), '\\n' + rest)",
		"lemma_find_at(content, '\\n', len(pre) + len(TAG) + 1, len(pre) + len(TAG) + 2 + len(header_json(h)))",
	], types={'return': 'MetaHeader | None'},
	ghost_params={'pre': 'str', 'h': 'MetaHeader', 'rest': 'str'},
	requires=[
		# the shape block/entrypoint.j2 writes: '// ' + header + newline + rest; the tag does not occur before its own position
		"content == pre + TAG + ': ' + header_json(h) + '\\n' + rest", 'content.find(TAG) == len(pre)', 'len(h.app_version) > 0',
	],
	raises={},
	ensures=[
		# Top: the header written into an output is read back to the same value
		'result is not None', 'result.app_version == h.app_version', 'result.module_meta == h.module_meta', 'result.transpiler_meta == h.transpiler_meta',
	])

contract(HDR, 'MetaHeader.identity', 'C06', types={'self': 'MetaHeader'},
	rewrites={"hashlib.md5(self.to_json().encode('utf-8')).hexdigest()": 'md5(self.to_json())'},
	raises={}, ensures=['result == md5(header_json(self))'])

contract(HDR, 'MetaHeader.__eq__', 'C06', types={'self': 'MetaHeader', 'other': 'MetaHeader'},
	rewrites={'type(other) is not MetaHeader': 'False'},
	raises={},
	ensures=[
		# Top: headers compare equal exactly when application version, module hash/path and transpiler version/module are all equal
		'result == (self.app_version == other.app_version and self.module_meta == other.module_meta and self.transpiler_meta == other.transpiler_meta)',
	])

contract(RUN, 'Runner.can_transpile', 'C06', types={'self': 'Runner', 'module_path': 'ModulePath', 'old_meta': 'MetaHeader | None'},
	rewrites={
		'self.try_load_meta_header(module_path)': 'recorded_header(self, module_path)',
		'self.module_meta_factory(module_path.path)': 'current_module_meta(self, module_path)',
		'self.transpiler.meta': 'current_transpiler_meta(self)',
	},
	raises={},
	ensures=[
		# Top: regenerate iff there is no recorded header or it differs from the current one in application version, module hash/path or transpiler version/module
		'result == (recorded_header(self, module_path) is None or recorded_header(self, module_path).app_version != VERSIONS_APP '
		'or recorded_header(self, module_path).module_meta != current_module_meta(self, module_path) or recorded_header(self, module_path).transpiler_meta != current_transpiler_meta(self))',
	])

contract(RUN, 'Runner.output_filepath', 'C06', types={'self': 'Runner', 'module_path': 'ModulePath', 'return': 'str'},
	ghost_params={'dirs': 'list[str]'}, ghost_args={'Runner.fetch_output_path.dirs': 'dirs'},
	rewrites={'self.config.output_language': 'output_language(self.config)', 'module_path.path': 'mp_path(module_path)',
		"module_path_to_filepath(module_path.path, f'.{extension}')": "mp_to_file(mp_path(module_path), '.' + extension)",
		'os.path.abspath(output_path)': 'abspath_of(output_path)'},
	requires=['len(dirs) >= 1', "all(len(dirs[k].split(':')) == 2 for k in range(len(dirs) - 1))"],
	raises={},
	ensures=[
		# the file whose header decides regeneration is named by an absolute path: the one this run writes, not whatever a loader search path finds first
		'is_abs(result)',
		"result == abspath_of(out_path(dirs, mp_to_file(mp_path(module_path), '.' + (output_language(self.config).split(':')[1] if len(output_language(self.config).split(':')) == 2 else output_language(self.config).split(':')[0])), 0))"])

contract(RUN, 'Runner.fetch_output_path', 'C06', types={'self': 'Runner'},
	ghost_params={'dirs': 'list[str]'},
	rewrites={
		"filepath.replace(os.sep, '/')": 'filepath',  # POSIX: os.sep == '/'
		'self.config.output_dirs[-1]': 'dirs[len(dirs) - 1]',
		'self.config.output_dirs[:-1]': 'dirs[:len(dirs) - 1]',
		're.fullmatch(pattern, _filepath)': 'glob_match(condition, _filepath)',
		'os.path.join(output_dir, filepath)': 'pjoin(output_dir, filepath)',
		'os.path.join(output_dir, filepath[len(condition):])': 'pjoin(output_dir, filepath[len(condition):])',
		'os.path.join(fallback, filepath)': 'pjoin(fallback, filepath)',
	},
	requires=['len(dirs) >= 1', "all(len(dirs[k].split(':')) == 2 for k in range(len(dirs) - 1))"],
	raises={},
	ensures=['result == out_path(dirs, filepath, 0)'],
	loops={0: Loop(invariant=['0 <= _i', '_i <= len(dirs) - 1', '_seq == dirs[:len(dirs) - 1]', 'out_path(dirs, filepath, 0) == out_path(dirs, filepath, _i)'])})


@lemma('C06', requires=['f1 != f2', 'f1.startswith(cond)', 'f2.startswith(cond)'], ensures=['pjoin(out, f1[len(cond):]) != pjoin(out, f2[len(cond):])', 'pjoin(out, f1) != pjoin(out, f2)'])
def lemma_rule_injective(out: str, cond: str, f1: str, f2: str):
	"""Top ("distinct modules never share an output path"), per rule: a prefix rule and a glob rule each map distinct files to distinct outputs.
	Across different rules this needs the configuration precondition that their output directories do not overlap (stated, not proved)."""
	pass

# ------------------------------------------------------------------------------------------------ native readings / twins
TRUSTED_BASE = ['json.dumps/loads with compact separators: field-wise inverse, no newline, ends with "}", leading blank ignored (bounded-checked by the twin)',
	'hashlib.md5 injective on the inputs that occur', 'os.path.join injective in a relative second argument; os.sep == "/"', 're.fullmatch as an uninterpreted predicate']
ASSUMPTIONS = ['file I/O of Runner.try_load_meta_header and Writer is assumed (recorded_header external); Runner._run_impl writes exactly the selected modules (read, not proved)',
	'whole-run equality needs transpile(m) to depend only on what the header records: it records the module\'s own hash only (known finding F-C06-a)',
	'distinct output paths across *different* output_dirs rules need non-overlapping output directories (configuration precondition)']


@native
def json_of(v, m, t):
	import json
	return json.dumps({'version': v, 'module': m, 'transpiler': t}, separators=(',', ':'))


@native
def header_json_native(h):
	return json_of(h['app_version'], h['module_meta'], h['transpiler_meta'])


@native
def pjoin(a, b):
	import os
	return os.path.join(a, b)


@native
def glob_match(cond, f):
	import re
	return re.fullmatch(cond.replace('*', '.+'), f) is not None


class _Cfg:
	def __init__(self, dirs):
		self.output_dirs = dirs


@native
def _fetch(self=None, filepath='', dirs=None):
	import typing
	if not hasattr(typing, 'TypeIs'):  # harness shim: py2cpp.py (imported by the CLI module) uses a 3.13-only annotation helper
		typing.TypeIs = typing.TypeGuard
	from rogw.tranp.bin.transpile import Runner
	r = object.__new__(Runner)
	r.config = _Cfg(list(dirs))
	return r.fetch_output_path(filepath)


@native
def _try_from_content(content='', pre='', h=None, rest=''):
	from rogw.tranp.data.meta.header import MetaHeader
	return MetaHeader.try_from_content(content)


@native
def _try_from_content__prep(kw):
	kw = dict(kw)
	class H(dict):
		def __getattr__(self, k):
			if k.startswith('__'):
				raise AttributeError(k)
			return self[k]
	kw['h'] = H(kw['h'])
	return kw


from pyvc.api import REG as _REG, spec as _spec
_REG.contracts[(RUN, 'Runner.fetch_output_path')].replay = '_fetch'
_REG.contracts[(HDR, 'MetaHeader.try_from_content')].replay = '_try_from_content'
# native reading of header_json for dict-shaped ghost headers
_REG.specs['header_json'].fn = lambda h: json_of(h['app_version'], h['module_meta'], h['transpiler_meta'])


def gen_fetch(rnd, tier):
	conds = ['app/', 'app/*', 'lib/', 'a', 'src/gen/', 'app/sub/*']
	outs = ['out/', 'gen/x/', '.', 'o']
	names = ['app/x.py', 'app/sub/x.py', 'app/sub/app/x.py', 'lib/app/y.py', 'src/gen/z.py', 'q.py', 'aa/b.py', 'app/']
	while True:
		k = rnd.randint(0, 3)
		dirs = [f'{rnd.choice(conds)}:{rnd.choice(outs)}' for _ in range(k)] + [rnd.choice(outs)]
		yield {'self': None, 'filepath': rnd.choice(names), 'dirs': dirs}


def gen_header(rnd, tier):
	strs = ['1.0.0', '1.0.1', 'a"b', 'x}y', 'h{', 'rogw.tranp.x', 'é', ' ', '\\\\']
	while True:
		h = {'app_version': rnd.choice(strs), 'module_meta': {'hash': rnd.choice(strs), 'path': rnd.choice(strs)}, 'transpiler_meta': {'version': rnd.choice(strs), 'module': rnd.choice(strs)}}
		pre = rnd.choice(['// ', '', '/* ', '// x\n// '])
		rest = rnd.choice(['#pragma once\n', '', '}\n}', '@tranp.meta: {}\n'])
		yield {'content': pre + '@tranp.meta: ' + json_of(h['app_version'], h['module_meta'], h['transpiler_meta']) + '\n' + rest, 'pre': pre, 'h': h, 'rest': rest}


TWINS = {'Runner.fetch_output_path': gen_fetch, 'MetaHeader.try_from_content': gen_header}


def known_stale_dependant(kf):
	from twins import pipeline
	ok, why = pipeline.stale_after_dependency_edit()
	return ok


def extra_checks(tier, seed, active_known):
	from pyvc.driver import Extra
	from twins import pipeline
	runs, fails = pipeline.own_edit_regenerates()
	x = Extra(name='after an edit of its own source a module is regenerated by a non-forced run (equal to a forced run), also next to a module whose path extends its own', kind='bounded', ok=not fails, cases=runs,
		bound='3 two-module projects (src/net.py + src/network/client.py, util.py + util_ext.py, a.py + b.py): run, edit, run, run -f on the real CLI', detail=f'{len(fails)} failing histories',
		samples=[{'history': ['run', 'edit src/net.py', 'run', 'run -f'], 'verdict': 'non-forced == forced'}])
	x.distinct = runs
	if fails:
		x.violation = {'what': fails[0]['what'], 'function': 'rogw/tranp/bin/transpile.py:Runner.can_transpile / rogw/tranp/providers/module.py:module_meta_factory', 'inputs': fails[0], 'clause': 'non-forced run after an own-source edit == forced run'}
		x.finding_key = 'pipeline|own-edit'
	from twins import default_args_lint
	import os as _os
	nd, badd = default_args_lint.run(_os.environ.get('PYVC_REPO', '/repo'))
	lint = Extra(name='no parameter with a mutable default value (one object shared by every call: hidden per-process state) is mutated, stored or returned', kind='closed', ok=not badd, cases=nd, exhaustive=True,
		detail=f'{nd} parameters with a list / dict / set default under rogw/, {len(badd)} of them escape')
	if badd:
		b0 = badd[0]
		lint.violation = {'what': f"{b0['file']}:{b0['function']}: parameter {b0['parameter']} = {b0['default']} is one object for all calls and {b0['why']}: what a call does depends on the calls before it", 'function': f"{b0['file']}:{b0['function']}", 'inputs': b0, 'clause': 'no state survives a call through a default argument'}
		lint.finding_key = 'default-args-lint'
	return [x, lint]
