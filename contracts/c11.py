"""C11 — The self-hosted parser builds the trees CPython builds.

Proved (VC), function by function over abstract pattern / token / tree identities:
* step accounting of the matching engine (_match_terminal, _match_and, _match_or, _match_repeat, _match_entry, _match_symbol):
  a match never reaches before the first token, a failed match consumes nothing, a terminal consumes exactly the token at the
  cursor; SyntaxParser.parse returns normally only when every token is consumed and otherwise raises Errors.Syntax (Top:
  "consumes all tokens" / "rejected with Errors.Syntax");
* keywords never match a regexp terminal (_compare_token); the unwrap rules [1] / [*] (_unwrap_children);
* the error summary names a token of the input and quotes a line that exists (ErrorCollector).
Bounded (never counted as proved): agreement of the tree structure with CPython's ast on generated sentences.
"""
from __future__ import annotations
from pyvc.api import contract, lemma, native, Loop
from specs.parsespec import SYN
import specs.parsespec  # noqa: F401
import contracts.c12  # noqa: F401  (Rules.__getitem__ / unwrap_by are shared with C12)

LEVEL = 'proof'

PAT = {'pattern.role': 'pat_role(pattern)', 'pattern.comp': 'pat_comp(pattern)', 'pattern.expression': 'pat_expr(pattern)', 'pattern.rep': 'pat_rep(pattern)', 'pattern.op': 'pat_op(pattern)',
	'patterns.rep': 'pat_rep(patterns)', 'patterns.op': 'pat_op(patterns)', 'token.string': 'tok_string(token)', 'self.rules.keywords': 'keywords_of(self.rules)',
	'Token.empty()': 'tok_empty()', 'ASTToken.empty()': 'mk_empty()', 'reversed(patterns)': 'rev_entries(patterns)',
	'isinstance(pattern, Patterns)': 'is_group(pattern)', 'isinstance(pattern, Pattern)': '(not is_group(pattern))'}
T = {'self': 'SyntaxParser', 'tokens': 'list[Tok]', 'context': 'Context', 'pattern': 'PatEntry', 'patterns': 'PatEntry', 'token': 'Tok', 'in_children': 'list[Entry]', 'children': 'list[Entry]'}
NOLOG = {'self.monitor.log(index, ok, token, pattern)': 'pass', 'self.monitor.log(len(tokens) - 1 - context.cursor, symbol, pattern)': 'pass'}
IN_RANGE = ['0 <= context.position', 'context.position <= len(tokens)']
# a match consumes tokens between the first token and the cursor, and nothing when it fails
MONO = ['self.monitor.peek >= old(self.monitor.peek)']
ACCOUNT = ['0 <= result[0]._steps', 'context.position + result[0]._steps <= len(tokens)', 'implies(not result[0]._steping, result[0]._steps == 0)']

contract(SYN, 'SyntaxParser._compare_token', 'C11', types={**T, 'return': 'bool'},
	rewrites={**PAT, 're.fullmatch(pattern.expression, token.string) is not None': 're_full(pat_expr(pattern), tok_string(token))'},
	raises={'AssertionError': 'pat_comp(pattern) == NOCOMP'},
	ensures=[
		'implies(pat_comp(pattern) == EQUALS, result == (pat_expr(pattern) == tok_string(token)))',
		# a keyword (a terminal string of the rule set) never matches a regexp terminal
		'implies(pat_comp(pattern) != EQUALS, result == (tok_string(token) not in keywords_of(self.rules) and re_full(pat_expr(pattern), tok_string(token))))'])

contract(SYN, 'SyntaxParser._match_terminal', 'C11', types={**T, 'return': 'tuple[Step, Tok]'}, rewrites=PAT, stmt_rewrites=NOLOG,
	requires=IN_RANGE + ['not is_group(pattern)', 'pat_role(pattern) == TERMINAL'],
	ensures=ACCOUNT + [
		# a terminal consumes exactly the token at the cursor (counted from the last token)
		'implies(result[0]._steping, result[0]._steps == 1 and context.position < len(tokens) and result[1] == tokens[len(tokens) - 1 - context.position])'])

MATCH_T = {**T, 'return': 'tuple[Step, list[Entry]]'}
contract(SYN, 'SyntaxParser._match_entry', 'C11', types=MATCH_T, rewrites={**PAT, 'DSN.join(route, pattern.expression)': 'dsn_join2(route, pat_expr(pattern))'},
	requires=IN_RANGE,
	modifies=['self.monitor'],
	raises={'Exception': None},
	ensures=ACCOUNT + MONO)

contract(SYN, 'SyntaxParser._match_or', 'C11', types=MATCH_T, rewrites={**PAT, 'patterns': 'pat_entries(patterns)'},
	requires=IN_RANGE + ['is_group(patterns)'], modifies=['self.monitor'], raises={'Exception': None}, ensures=ACCOUNT + MONO,
	loops={0: Loop(invariant=['0 <= _i', '_i <= len(_seq)'] + MONO)})

contract(SYN, 'SyntaxParser._match_and', 'C11', types=MATCH_T, rewrites=PAT,
	requires=IN_RANGE + ['is_group(patterns)'], modifies=['self.monitor'], raises={'Exception': None}, ensures=ACCOUNT + MONO,
	loops={0: Loop(invariant=['0 <= _i', '_i <= len(_seq)', '0 <= steps', 'context.position + steps <= len(tokens)'] + MONO)})

contract(SYN, 'SyntaxParser._match_repeat', 'C11', types=MATCH_T, rewrites=PAT,
	requires=IN_RANGE + ['is_group(patterns)'], modifies=['self.monitor'], raises={'Exception': None, 'AssertionError': "pat_rep(patterns) == 'off'"}, ensures=ACCOUNT + MONO,
	# an optional group (`?` and `[..]`) is matched at most once; `+` at least once; a failed repeat consumes nothing
	exit_asserts=["implies(pat_rep(patterns) == '?' or pat_rep(patterns) == '[]', found <= 1)", "implies(pat_rep(patterns) == '+' and result[0]._steping, found >= 1)", 'implies(found == 0, result[0]._steps == 0)'],
	loops={0: Loop(invariant=['0 <= steps', 'context.position + steps <= len(tokens)', '0 <= found', 'implies(found == 0, steps == 0)', "implies(pat_rep(patterns) == '?' or pat_rep(patterns) == '[]', found == 0)"] + MONO)})

contract(SYN, 'SyntaxParser._match_symbol', 'C11', types={**T, 'return': 'tuple[Step, Entry]', 'symbol': 'str'},
	rewrites={**PAT, 'DSN.right(route, 1)': 'dsn_right(route, 1)', 'ASTToken(symbol, token)': 'mk_token(symbol, token)'},
	stmt_rewrites=NOLOG,
	requires=IN_RANGE, modifies=['self.monitor'], raises={'Exception': None}, ensures=ACCOUNT + MONO)

contract(SYN, 'SyntaxParser._unwrap_children', 'C11', types={**T, 'child': 'Entry', 'return': 'Entry', 'unwraped': 'list[Entry]'},
	rewrites={'isinstance(child, ASTToken)': 'is_token(child)', 'child.name': 'ent_name(child)', 'child.children': 'ent_children(child)', 'ASTTree(symbol, unwraped)': 'mk_tree(symbol, unwraped)'},
	ensures=[
		# Top (mechanism): a [1] rule with a single child is replaced by that child, a [*] rule by all its children, in order
		'not is_token(result)', 'ent_name(result) == symbol', 'ent_children(result) == unwrapped(self.rules, children)'],
	loops={0: Loop(invariant=['0 <= _i', '_i <= len(_seq)', '_seq == children', 'unwraped == unwrapped(self.rules, children[:_i])'],
		hints_head=['implies(_i < len(children), children[:_i + 1][:_i] == children[:_i])'])})

# ---- parse: all tokens consumed, or Errors.Syntax
contract(SYN, 'SyntaxParser.parse', 'C11', types={**T, 'return': 'Entry', 'entry': 'Entry'},
	rewrites={'self.tokenizer.parse(source)': 'tokenize(self.tokenizer, source)', 'as_a(ASTTree, entry)': 'as_tree(entry)'},
	stmt_rewrites={'self.monitor.start(tokens)': 'pass'},
	requires=['self.monitor.peek >= 0'],
	modifies=['self.monitor'],
	# whatever the matching functions raise is outside this contract (they only raise on broken rule sets: KeyError / AssertionError)
	raises={'Errors.Syntax': None, 'Exception': None},
	# Top: a tree is returned only when the match of the entry point consumed every token of the input
	exit_asserts=['step._steps == len(tokens)', 'tokens == tokenize(self.tokenizer, source)'])

# ---- the error summary names a token of the input and quotes a line that exists
EC = {'self': 'ErrorCollector'}
WF = ['0 <= self.steps', 'self.steps < len(self.tokens)']
LINE_OK = ["-len(self.source.split('\\n')) <= tok_map(self.tokens[self.steps]).begin_line", "tok_map(self.tokens[self.steps]).begin_line < len(self.source.split('\\n'))"]
ECRW = {'self._cause_token.source_map': 'tok_map(self._cause_token)', 'self._cause_token.string': 'tok_string(self._cause_token)', 'repr(self._cause_token.string)': 'repr_s(tok_string(self._cause_token))'}
contract(SYN, 'ErrorCollector._cause_token', 'C11', types={**EC, 'return': 'Tok'}, requires=WF, raises={}, ensures=['result == self.tokens[self.steps]'])
contract(SYN, 'ErrorCollector._cause_line', 'C11', types={**EC, 'return': 'str'}, rewrites=ECRW, requires=WF + LINE_OK, raises={},
	ensures=["result == self.source.split('\\n')[tok_map(self.tokens[self.steps]).begin_line]", "result in self.source.split('\\n')"])
contract(SYN, 'ErrorCollector._cause_line_mark', 'C11', types={**EC, 'return': 'str'}, rewrites=ECRW, requires=WF + LINE_OK + ['tok_map(self.tokens[self.steps]).begin_column >= -1'], raises={},
	ensures=["len(result) >= 1", "result.endswith('^')"])
contract(SYN, 'ErrorCollector.summary', 'C11', types={**EC, 'return': 'str'}, rewrites=ECRW, requires=WF + LINE_OK + ['tok_map(self.tokens[self.steps]).begin_column >= -1', 'tok_map(self.tokens[self.steps]).begin_line >= -1'], raises={},
	ensures=[
		# Top: the summary names a token of the input (by position and text) and quotes the line it stands on
		"result.startswith('pass: ' + str(self.steps) + '/' + str(len(self.tokens)) + ', token: ' + repr_s(tok_string(self.tokens[self.steps])) + '\\n(' + str(tok_map(self.tokens[self.steps]).begin_line + 1) + ') >>> ' + self.source.split('\\n')[tok_map(self.tokens[self.steps]).begin_line] + '\\n')"])

TRUSTED_BASE = ['pattern entries, tokens and tree entries as opaque identities with observers (role, comp, expression, rep, op, entries; string, source_map; name, children); re.fullmatch and Rules.keywords uninterpreted']
ASSUMPTIONS = ['termination of the mutually recursive matching functions is not decided (left-recursive rule sets make the engine loop)',
	'Rules.__getitem__ / unwrap_by are used through their C12 contracts']


def _worker(tier, seed):
	import json
	import os
	import subprocess
	from twins.pipeline import PY313, REPO, SITE
	env = dict(os.environ)
	env['PYTHONPATH'] = f'{REPO}:{SITE}'
	env['PYVC_REPO'] = REPO
	p = subprocess.run([PY313, os.path.join(os.path.dirname(os.path.dirname(os.path.abspath(__file__))), 'twins', 'pyparse_worker.py'), tier, str(seed)], env=env, capture_output=True, text=True, timeout=3000)
	lines = [ln for ln in p.stdout.strip().split('\n') if ln.startswith('{')]
	if not lines:
		raise RuntimeError(f'parser twin worker gave no result: rc={p.returncode} {p.stderr[-400:]}')
	return json.loads(lines[-1])


def extra_checks(tier, seed, active_known):
	from pyvc.driver import Extra
	d = _worker(tier, seed)
	out = []
	for c in d['closed']:
		x = Extra(name=c['name'], kind='closed', ok=c['ok'], cases=1, detail=c['detail'], exhaustive=True)
		if not c['ok']:
			x.violation = {'what': f"{c['name']}: {c['detail']}", 'function': 'rogw/tranp/implements/syntax/tranp/rule.py:Rules.keywords', 'inputs': {'obligation': c['name'], 'detail': c['detail']}, 'clause': c['name']}
			x.finding_key = 'closed:keywords'
		out.append(x)
	fails = d['fails']
	y = Extra(name='canon(SyntaxParser(py_rules()).parse(s)) == canon(ast.parse(s)) on generated sentences of the grammar; mutated sentences are rejected with Errors.Syntax (summary naming a token of the text and a line of it) or accepted with the matching tree', kind='bounded', ok=not fails, cases=d['cases'] + d['mutants'],
		bound='25 fixed sentences + generated programs (time budget 40 s quick / 600 s thorough): expressions of depth <= 2 over every operator level of py_gram.lark (or/and/not/comparison chains incl. not in / is not, + - * / %, unary minus, ternary, walrus-free lambda, attribute/call/index chains with keyword and packed arguments, list/tuple/dict literals), statements (assignment to name/attribute/index, return, raise, break, continue, ...), if/elif/else, for, while, def with typed parameters and defaults, blocks nested <= 2 with tab / 4-space / 2-space indentation mixed across sentences of one process; 2 mutants per accepted sentence; 2 s per parse',
		detail=f"{d['cases']} sentences, {d['mutants']} mutants ({d['rejected']} rejected with Errors.Syntax, {d['looser']} accepted where CPython rejects: not comparable), {d['skipped']} skipped on the time limit, {len(fails)} failures",
		samples=[{'source': 'x = a and not (b)', 'verdict': 'same tree as CPython'}])
	y.distinct = d['cases'] + d['mutants']
	if fails:
		y.violation = {'what': fails[0]['what'], 'function': 'rogw/tranp/implements/syntax/tranp/syntax.py / rule.py / tokenizer.py', 'inputs': fails[0], 'clause': 'canon(parse(s)) == canon(ast.parse(s))'}
		y.finding_key = 'pyparse-twin'
	out.append(y)
	return out
