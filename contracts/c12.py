"""C12 — The grammar engine reproduces itself and its compiled rule files.

Closed obligations (no quantifier) are decided by evaluation on every run: parsing gram.lark with the built-in rules gives the
built-in rules; compiling each shipped grammar gives the checked-in rule module.
Proved (VC): the leaf of the print/parse round trip - Pattern.make reads exactly the three textual forms the printer writes
(quoted string with the four control-code escapes, slashed regexp, symbol), Prettier._pretty_pattern writes them, and reading a
printed pattern gives the pattern back; rule naming with unwrap markers (ASTSerializer._for_rule_name) against the look-up by
symbol (Rules.unwrap_by / __getitem__).
Bounded (never counted as proved): the recursive rebuild / printer over pattern groups and the engine itself, by the
print -> parse -> rebuild round trip and the compiled-vs-original comparison on generated grammars.
"""
from __future__ import annotations
from pyvc.api import contract, lemma, native, record, ref, Loop
from specs.gramspec import RULE
import specs.gramspec  # noqa: F401

LEVEL = 'proof'

QUOTED = "(expression.startswith('\"') and expression.endswith('\"'))"
SLASHED = "(expression.startswith('/') and expression.endswith('/'))"

contract(RULE, 'Pattern.make', 'C12', types={'return': 'Pattern'}, replay='_make_call',
	rewrites={"re.fullmatch('\\\\w[\\\\w\\\\d]*', expression)": 'is_word(expression)', 'cls.__space_codes': "{'t': '\\t', 'f': '\\f', 'r': '\\r', 'n': '\\n'}"},
	raises={'AssertionError': f'not {QUOTED} and not {SLASHED} and not is_word(expression)'},
	ensures=[
		# a quoted string is a terminal compared by equality; its body is taken literally except for the four control-code escapes
		f'implies({QUOTED}, result._role == TERMINAL and result._comp == EQUALS and result._expression == unescape(expression[1:-1]))',
		# a slashed text is a regexp terminal: exactly the text between the first and the last slash
		f'implies(not {QUOTED} and {SLASHED}, result._role == TERMINAL and result._comp == REGEXP and result._expression == expression[1:-1])',
		f'implies(not {QUOTED} and not {SLASHED}, result._role == SYMBOL and result._comp == NOCOMP and result._expression == expression)',
	])

contract(RULE, 'Prettier._pretty_pattern', 'C12', types={'pattern': 'Pattern', 'return': 'str'}, replay='_pretty_call',
	rewrites={'pattern.comp': 'pattern._comp', 'pattern.expression': 'pattern._expression'},
	ensures=['result == printed(pattern._expression, pattern._comp)'])


@lemma('C12', requires=['comp == REGEXP or (comp == EQUALS and unescape(e) == e) or (comp == NOCOMP and is_word(e))'],
	ensures=[
		# Top (leaf of the round trip): what Pattern.make reads from the printed text is the pattern that was printed
		"implies(comp == REGEXP, printed(e, comp).startswith('/') and printed(e, comp).endswith('/') and not printed(e, comp).startswith('\"') and printed(e, comp)[1:-1] == e)",
		"implies(comp == EQUALS, printed(e, comp).startswith('\"') and printed(e, comp).endswith('\"') and unescape(printed(e, comp)[1:-1]) == e)",
		"implies(comp == NOCOMP, printed(e, comp) == e and not printed(e, comp).startswith('\"') and not printed(e, comp).startswith('/'))",
	])
def lemma_read_printed(e: str, comp: int):
	"""Printing a pattern and reading the printout selects the same branch of Pattern.make and recovers the expression.
	(An Equals pattern whose expression is one of the two-character escape spellings is not expressible in the meta-grammar:
	the text "\\n" denotes the line feed.)"""
	pass


# ---- repeat decoration, rule naming with unwrap markers, look-up by symbol
contract(RULE, 'Prettier._deco_repeat', 'C12', types={'rep': 'str', 'return': 'str'},
	requires=["rep in ['*', '+', '?', '[]', 'off']"],
	ensures=["implies(rep == 'off', result == pretty_patterns)", "implies(rep == '[]', result == '[' + pretty_patterns + ']')",
		"implies(rep != 'off' and rep != '[]', result == '(' + pretty_patterns + ')' + rep)"])

contract(RULE, 'Rules.unwrap_by', ['C12', 'C11'], types={'self': 'Rules', 'return': 'str'},
	ensures=["result == unwrap_of(self, symbol)", "(result == 'off') == (symbol in self._rules)", "(result == '1') == (symbol not in self._rules and symbol + '[1]' in self._rules)",
		"result == 'off' or result == '1' or result == '*'"])
contract(RULE, 'Rules.__getitem__', ['C12', 'C11'], types={'self': 'Rules', 'return': 'PatEntry'},
	raises={'KeyError': "symbol not in self._rules and symbol + '[1]' not in self._rules and symbol + '[*]' not in self._rules"},
	ensures=[
		# the pattern of a symbol is found under the name the rebuild gave its rule: plain, or with the unwrap marker
		"implies(symbol in self._rules, result == self._rules[symbol])",
		"implies(symbol not in self._rules and symbol + '[1]' in self._rules, result == self._rules[symbol + '[1]'])",
		"implies(symbol not in self._rules and symbol + '[1]' not in self._rules, result == self._rules[symbol + '[*]'])"])

TOK = 'tuple[str, str]'
contract(RULE, 'ASTSerializer._for_rule_name', 'C12', types={'tree': f'tuple[str, list[{TOK}]]', 'entry': TOK, 'token': TOK, 'return': 'str'},
	rewrites={'as_a(list, entry[1])': 'entry[1]', 'as_a(str, entry[1])': 'entry[1]'},
	requires=['len(tree[1]) >= 2'],
	raises={'AssertionError': "tree[1][0][0] != 'symbol'"},
	ensures=[
		# the rule is stored as `name[marker]` exactly when the rule text carries an unwrap marker
		"implies(tree[1][1][0] == 'unwrap', result == tree[1][0][1] + '[' + tree[1][1][1] + ']')",
		"implies(tree[1][1][0] != 'unwrap', result == tree[1][0][1])"])


@native
def is_word(s):
	import re
	return re.fullmatch(r'\w[\w\d]*', s) is not None


@native
def _make_call(cls=None, expression=''):
	"""Pattern.make on the real class; enum members are read by their values (as the contracts do)."""
	from types import SimpleNamespace
	from rogw.tranp.implements.syntax.tranp.rule import Pattern
	p = Pattern.make(expression)
	return SimpleNamespace(_expression=p.expression, _role=p.role.value, _comp=p.comp.value)


@native
def _pretty_call(cls=None, pattern=None):
	from rogw.tranp.implements.syntax.tranp.rule import Comps, Pattern, Prettier, Roles
	return Prettier._pretty_pattern(Pattern(pattern['_expression'], Roles(pattern['_role']), Comps(pattern['_comp'])))


def gen_make(rnd, tier):
	alpha = ['"', '/', '\\', 't', 'n', 'a', '_', ' ', '1', '|']
	while True:
		body = ''.join(rnd.choice(alpha) for _ in range(rnd.randint(0, 4)))
		yield {'cls': None, 'expression': rnd.choice(['"', '/', '']) + body + rnd.choice(['"', '/', ''])}


TWINS = {'Pattern.make': gen_make}

TRUSTED_BASE = ["re.fullmatch(r'\\w[\\w\\d]*', s) as an uninterpreted predicate (a word starts with neither a quote nor a slash)"]
ASSUMPTIONS = ['the recursive rebuild (ASTSerializer._for_expr*), the group printer (Prettier._pretty_patterns*) and the engine that parses the printout work over recursive tuple / pattern trees: outside the VC subset, bounded twin only',
	'rule sets are compared structurally (expression, role, comparison, operator, repeat, entries, rule names in order): the classes define no equality of their own',
	'the checked-in rule modules are compared as Python modules with docstrings removed (data/syntax/gram_rules.py carries a hand-written docstring the renderer does not emit)']


def _worker(tier, seed):
	import json
	import os
	import subprocess
	from twins.pipeline import PY313, REPO, SITE
	env = dict(os.environ)
	env['PYTHONPATH'] = f'{REPO}:{SITE}'
	env['PYVC_REPO'] = REPO
	p = subprocess.run([PY313, os.path.join(os.path.dirname(os.path.dirname(os.path.abspath(__file__))), 'twins', 'gram_worker.py'), tier, str(seed)], env=env, capture_output=True, text=True, timeout=3000)
	lines = [ln for ln in p.stdout.strip().split('\n') if ln.startswith('{')]
	if not lines:
		raise RuntimeError(f'gram worker gave no result: rc={p.returncode} {p.stderr[-400:]}')
	return json.loads(lines[-1])


def extra_checks(tier, seed, active_known):
	from pyvc.driver import Extra
	d = _worker(tier, seed)
	out = []
	for c in d['closed']:
		x = Extra(name=c['name'], kind='closed', ok=c['ok'], cases=1, detail=c['detail'], exhaustive=True)
		if not c['ok']:
			x.violation = {'what': f"{c['name']}: {c['detail']}", 'function': 'rogw/tranp/implements/syntax/tranp/rule.py / syntax.py / bin/gram_check.py', 'inputs': {'obligation': c['name']}, 'clause': c['name']}
			x.finding_key = 'closed:' + c['name'][:40]
		out.append(x)
	fails = d['fails']
	y = Extra(name='from_ast(parse(pretty(g))) == g for shipped and generated rule sets; compiled rules equal the original rules and give the same trees on generated sentences', kind='bounded', ok=not fails, cases=d['cases'],
		bound='gram_rules(), py_rules() + 40 (quick) / 400 (thorough) generated grammars: 1-4 rules, unwrap markers, alternatives, sequences, [..], (..)*+?, plain groups nested to depth 3, string terminals incl. the control-code escapes and meta characters, regexp terminals incl. escaped slashes at the end; up to 3 generated sentences per grammar (2 s per parse)',
		detail=f"{d['sentences']} sentences compared, {d.get('skipped', 0)} cases skipped on a parse time-out, {len(fails)} failures", samples=[{'grammar': 'x := a (b | c)\\n', 'verdict': 'reads back equal'}])
	y.distinct = d['cases']
	if fails:
		y.violation = {'what': fails[0]['what'], 'function': 'rogw/tranp/implements/syntax/tranp/rule.py (Prettier / ASTSerializer / Pattern.make) with syntax.py', 'inputs': fails[0], 'clause': 'from_ast(parse(pretty(g))) == g'}
		y.finding_key = 'gram-twin'
	out.append(y)
	return out
