"""C10 — Tree addressing is a bijection and node resolution is order-independent."""
from __future__ import annotations
import ast

from pyvc.api import contract, lemma, Loop, native
from specs.treespec import QUERY, PATH, ECACHE
import specs.treespec  # noqa: F401

LEVEL = 'proof'


def memo_key_vcs(eng, fn, st0):
	"""Derived obligations for a memoised query: the memo key must determine every input the factory closes over (two calls with the same
	key get the same cached answer), for paths/tags without the separator characters the keys are built with."""
	import z3
	from pyvc.engine import Ev, Oracle
	from pyvc.values import State, Val
	from pyvc.ty import STR
	node = fn.src.node
	params = [a.arg for a in node.args.args if a.arg != 'self']
	for call in ast.walk(node):
		if not (isinstance(call, ast.Call) and isinstance(call.func, ast.Attribute) and call.func.attr == 'get' and ast.unparse(call.func.value) == 'self.__memo' and len(call.args) == 2):
			continue
		key_expr, fac = call.args
		facdef = next((s for s in node.body if isinstance(s, ast.FunctionDef) and isinstance(fac, ast.Name) and s.name == fac.id), None)
		if facdef is None:
			continue
		used = sorted({n.id for n in ast.walk(facdef) if isinstance(n, ast.Name) and n.id in params})
		envs = []
		wf = []
		for k in (1, 2):
			env = dict(st0.env)
			for p in params:
				c = z3.Const(f'{p}_{k}', z3.StringSort())
				env[p] = Val(STR, c)
				wf += [z3.Not(z3.Contains(c, z3.StringVal('#')))]  # '#' does not occur in entry paths or tags
			envs.append(env)
		keys = [Ev(eng, fn, State(e, []), Oracle([]), 'spec').eval(key_expr).term for e in envs]
		goal = z3.Implies(keys[0] == keys[1], z3.And(*[envs[0][p].term == envs[1][p].term for p in used]))
		stq = State({}, wf)
		eng.oblige(fn, 'memo-key', stq, goal, f'memo key {ast.unparse(key_expr)} determines the inputs {used} of the cached factory', node.lineno)


MEMO = {r'self\.__memo\.get\((.+), factory\)': 'factory()'}

contract(QUERY, 'Nodes.ancestor', ['C10', 'C07'], types={'self': 'Nodes', 'return': 'NodeRef', 'base': 'str', 'elems': 'list[str]'},
	rewrite_patterns=MEMO,  # memo transparency: get(key, factory) returns the factory's (first) value; key injectivity is the derived obligation below
	rewrites={'EntryPath(via)': 'via', 'list(reversed(base.de_identify().elements))': 'rev_tags(base)', 'EntryPath.join(*base.elements[:slices])': 'join_elems(path_elems(base)[:slices])',
		'self.by(found_path.origin)': 'nodes_by(self, found_path)'},
	post_hook=memo_key_vcs, witness='witness_ancestor_absent',
	# Top: an absent tag is reported as NodeNotFound (an application error), nothing else escapes
	raises={'Errors.NodeNotFound': None},
	ensures=[])

for _m in ['parent', 'children', 'expand', 'values']:
	contract(QUERY, f'Nodes.{_m}', 'C10', types={'self': 'Nodes'}, hook_only=True, post_hook=memo_key_vcs,
		note='only the derived memo-key obligation is generated for this query (its body is outside the VC subset)')


def witness_ancestor_absent():
	from twins import tree_twin
	n, fails = tree_twin.run('quick', 0)
	hits = [f for f in fails if 'ancestor(' in f['what'] and 'raises' in f['what']]
	return bool(hits), (hits[0]['what'] if hits else 'no failing ancestor query')

TRUSTED_BASE = ['Memoize.get(key, factory) returns the value of the first factory stored under the key (proved from cache/memo2.py under C04: contracts Memo.get / Memoize.get); de-indexing by regular expression, EntryPath element access and Nodes.by as assumed externals',
	'entry paths and tags do not contain "#"']
ASSUMPTIONS = ['the bijection pluck ∘ full_pathfy, document-order ids, children/siblings/parent agreement with the tree and query-order independence of the resolved class are a bounded twin over random trees (recursion over third-party tree objects, dict-iteration code)',
	'match_feature of the real node classes is a function of (tree, path) only: assumed; validated on real modules by the C09 monitor']


def extra_checks(tier, seed, active_known):
	from pyvc.driver import Extra
	from twins import tree_twin
	n, fails = tree_twin.run(tier, seed)
	x = Extra(name='pluck(T, p) is e for every (p, e) in full_pathfy(T); ids in document order; parent/children/siblings/ancestor agree with the tree; answers independent of the query order', kind='bounded', ok=not fails, cases=n,
		bound='3 fixed + 37 (quick) / 397 (thorough) random lark trees of depth <= 4, <= 4 children per node, 8 tags incl. the root tag re-occurring below and tags that are textual prefixes of others, None placeholders; two query orders per tree',
		detail=f'{len(fails)} trees with a disagreement', samples=[{'tree': "Tree('block', [Tree('if_stmt', [Tree('block', [Token('tok', 'v')])]), Tree('block', [])])", 'verdict': 'bijection and queries agree'}])
	x.distinct = n
	if fails:
		x.violation = {'what': fails[0]['what'], 'function': 'rogw/tranp/syntax/ast/finder.py / rogw/tranp/syntax/node/query.py', 'inputs': fails[0], 'clause': 'queries agree with the tree'}
		x.finding_key = 'tree-twin'
	return [x]
