"""C07 — Failures are always reported as tranp errors, never internal crashes.

The engine computes for every function under contract the set of exception classes that can escape (explicit raises,
callee raises clauses, every implicit source not proved impossible).  The property is `raises ⊆ Errors.Error` at the
boundaries where the code is meant to normalise; interior exception freedom and termination are not decided here.
"""
from __future__ import annotations
from pyvc.api import contract, lemma, Loop, native
from specs.errspec import LARKP, RENDER
import specs.errspec  # noqa: F401
import contracts.c09  # noqa: F401  (Procedure.__emit carries the C07 normalisation clause)
import contracts.c14  # noqa: F401  (SymbolDB.unload raises nothing: the interactive loop unloads the main module on every prompt)

LEVEL = 'proof'

LOAD_RW = {
	'module_path_to_filepath(module_path)': 'mp2fp(module_path)',
	'self.__sources.exists(source_path)': 'sl_exists(self.__sources, source_path)',
	'EntryOfLark(parser.parse(self.__source_provider(module_path)))': 'mk_entry(lark_parse(parser, provide(self.__source_provider, module_path)))',
	'EntryStored(EntryOfLark(parser.parse(self.__source_provider(module_path))))': 'mk_stored(mk_entry(lark_parse(parser, provide(self.__source_provider, module_path))))',
	"{'grammar_mtime': str(self.__datums.mtime(self.__setting.grammar)), 'mtime': str(self.__sources.mtime(source_path))}": 'identity_of(self, source_path)',
	"self.__caches.get(basepath, identity=identity, format='json')": 'cache_decorator(self, basepath, identity)',
	'decorator(instantiate)().entry': 'entry_of(instantiate())',
}

contract(LARKP, 'SyntaxParserOfLark.__load_entry', 'C07', types={'self': 'SyntaxParserOfLark', 'parser': 'Lark', 'return': 'EntryRef', 'identity': 'IdentityDict', 'decorator': 'Decorator'},
	rewrites=LOAD_RW, witness='witness_inmemory_syntax',
	# Top (statement): unparsable text is reported as Errors.Syntax whether the module lives on disk or only in memory
	raises={'Errors.Syntax': None},
	ensures=[])


def witness_inmemory_syntax():
	"""An in-memory module with unparsable text must be reported as Errors.Syntax."""
	import os, sys
	repo = os.environ.get('PYVC_REPO', '/repo')
	cwd = os.getcwd()
	os.chdir(repo)
	try:
		if repo not in sys.path:
			sys.path.insert(0, repo)
		from tests.test.fixture import Fixture
		from rogw.tranp.errors import Errors
		fx = Fixture.make(f'{repo}/tests/unit/rogw/tranp/semantics/test_reflections.py')
		try:
			fx.custom_module('def f(:\n\tpass\n')
			return False, 'unparsable text was accepted'
		except Errors.Syntax:
			return False, 'reported as Errors.Syntax'
		except Errors.Error as e:
			return False, f'reported as {type(e).__qualname__}'
		except Exception as e:  # noqa: BLE001
			return True, f'in-memory module "def f(:" escaped as {type(e).__module__}.{type(e).__qualname__} instead of Errors.Syntax'
	finally:
		os.chdir(cwd)
		import shutil
		shutil.rmtree(os.path.join(repo, '.cache'), ignore_errors=True)


TRUSTED_BASE = ['lark.Lark.parse and the source provider may raise any exception (assumed externals)', 'the cache decorator returns the factory value or an equal stored one (cache-file errors belong to C05)']
ASSUMPTIONS = ['exception freedom of the pipeline between the normalisation boundaries, and termination, are not decided by this check']


def extra_checks(tier, seed, active_known):
	from pyvc.driver import Extra
	from twins import pipeline
	n, fails = pipeline.syntax_boundary_twin()
	okw, why = witness_inmemory_syntax()
	if okw:
		fails.append({'case': 'in-memory stray-colon', 'where': 'in-memory module', 'last_line': why})
	x = Extra(name='unparsable sources are reported as tranp errors (on disk through the CLI, in memory through the loader)', kind='bounded', ok=not fails, cases=n + 1,
		bound=f'{n} unparsable source files (stray token, dedent to an unopened column, invalid UTF-8, premature EOF, NUL byte, unbalanced bracket in a decorator) + 1 in-memory module',
		detail=f'{len(fails)} cases not reported as Errors.*', samples=[{'case': 'dedent-to-unopened-column', 'verdict': 'reported as rogw.tranp.errors.Errors.Syntax'}])
	x.distinct = n + 1
	if fails:
		x.violation = {'what': f'{fails[0]["case"]} ({fails[0]["where"]}) is not reported as a tranp error: {fails[0]["last_line"]}', 'function': 'rogw/tranp/implements/syntax/lark/parser.py:SyntaxParserOfLark.__load_entry', 'inputs': fails[0], 'clause': 'outcome in {ok} ∪ Errors.Error'}
		x.finding_key = 'pipeline|syntax-boundary'
	from twins import session_errors_twin
	n2, fails2 = session_errors_twin.run(tier, seed)
	y = Extra(name='inside one interactive-style session every input (well-formed, ill-typed, unparsable, in any order) loads or is reported as a tranp error', kind='bounded', ok=not fails2, cases=n2,
		bound='6 (quick) / 40 (thorough) sessions of 3-6 inputs drawn from 5 well-formed, 10 ill-typed (unknown names, missing annotations, binary / octal / imaginary literals, unknown imports / bases) and 4 unparsable sources; the statements of Interactive.rebuild_module on the real Modules / SymbolDB / parser',
		detail=f'{len(fails2)} escaping exceptions', samples=[{'history': ['b: int = 1\na: Foo = 1\n', 'c: int = 2\n'], 'verdict': 'Errors.* then loaded'}])
	y.distinct = n2
	if fails2:
		y.violation = {'what': fails2[0]['what'], 'function': 'rogw/tranp/module/modules.py / semantics/reflection/db.py / syntax/node/resolver.py (load / unload of the main module)', 'inputs': fails2[0], 'clause': 'only Errors.* escapes'}
		y.finding_key = 'session-errors-twin'
	return [x, y]

contract(RENDER, 'ErrorRender.Quotation.__load_line', ['C07', 'C16'], types={'self': 'ErrorRender.Quotation', 'f': 'FileObj', 'lines': 'list[str]'},
	rewrites={"open(filepath, mode='rb')": 'open_rb(filepath)', 'f.readlines()': 'file_lines(filepath)'},
	# the reported line must still exist in the file; -1 (virtual nodes carry span (0, 0), i.e. line index -1) addresses the last line
	requires=['-len(file_lines(filepath)) <= line_no', 'line_no < len(file_lines(filepath))'],
	raises={},  # Top: rendering the quotation does not fail
	ensures=["result == file_lines(filepath)[line_no].replace('\\n', '').replace('\\t', ' ')"])


@native
def file_lines(p):
	with open(p, 'rb') as f:
		return [l.decode() for l in f.readlines()]


@native
def _load_line(self=None, filepath='', line_no=0):
	from rogw.tranp.view.error_render import ErrorRender
	q = object.__new__(ErrorRender.Quotation)
	return q._Quotation__load_line(filepath, line_no)


from pyvc.api import REG as _REG
_REG.contracts[(RENDER, 'ErrorRender.Quotation.__load_line')].replay = '_load_line'
_TMPFILES: list[str] = []


def gen_load_line(rnd, tier):
	import atexit, os, tempfile
	if not _TMPFILES:
		d = tempfile.mkdtemp(prefix='c07_lines_')
		for i, text in enumerate(['a = 1\n\tb = 2\nlast', 'x\n', '\n\n', 'only', 'a = 1\n\x0c\nb = 2\nc = 3\n', 'p\rq\nr\x0bs\nt\x1cu\n', 'v\x85w\nx\u2028y\nz\n']):
			p = os.path.join(d, f'f{i}.py')
			open(p, 'w', newline='').write(text)
			_TMPFILES.append(p)
		import shutil
		atexit.register(lambda: shutil.rmtree(d, ignore_errors=True))
	while True:
		yield {'self': None, 'filepath': rnd.choice(_TMPFILES), 'line_no': rnd.randint(-4, 3)}


TWINS = {'ErrorRender.Quotation.__load_line': gen_load_line}
