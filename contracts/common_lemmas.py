"""Lemmas about Python's str methods shared by several properties (each property's run re-proves the ones it uses)."""
from __future__ import annotations
from pyvc.api import lemma

USERS = ['C18', 'C13']


@lemma(USERS, requires=['len(c) == 1'], ensures=['s.count(c) >= 0', '(s.count(c) > 0) == (c in s)'], decreases='len(s)')
def lemma_count_pos(s: str, c: str):
	"""str.count is positive exactly when the character occurs."""
	if c in s:
		lemma_count_pos(s[s.find(c) + 1:], c)


@lemma(USERS, requires=['len(sep) == 1'], ensures=['len(s.split(sep)) >= 1', 'sep.join(s.split(sep)) == s'], decreases='len(s)')
def lemma_split_join(s: str, sep: str):
	"""Joining what split produced gives the string back."""
	if sep in s:
		lemma_split_join(s[s.find(sep) + 1:], sep)


