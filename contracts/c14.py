"""C14 — Exporting and re-importing the symbol table loses nothing.

Proved (VC): the export order.  `SymbolDB._order_keys_recursive` / `_order_keys` list the keys of a module so that every key
stands after every key its row refers to (type arguments at any depth and the type itself), for tables whose type-reference
graph is acyclic — the statement's "import never refers to a key not yet present", on the export side.
Bounded (never counted as proved): the rebuild of nested attributes on import (`_deserialize_attrs` mutates aliased
reflection objects: outside the VC subset) and the symbol-by-symbol comparison, by the export/import twin over the real
library modules and generated modules.
"""
from __future__ import annotations
from pyvc.api import contract, lemma, Loop
from specs.symspec import DB
import specs.symspec  # noqa: F401

LEVEL = 'proof'

M = 'for_module_path'
U = lambda body, **vs: body if not vs else U(f'all({body} for {list(vs)[-1]} in universe("{vs[list(vs)[-1]]}"))', **{k: v for k, v in list(vs.items())[:-1]})  # noqa: E731

# the table's type-reference graph is acyclic below module m: a rank on keys decreases along every reference of a row
ACYC = U(f'implies(k in self.__items and desc(a, self.__items[k]) and mod_of(a) == {M} and not (a == self.__items[k] and name_of(a) == k), krank(name_of(a)) < krank(k))', k='str', a='Refl')
# the entry stored under a type's name is that type's own symbol
TYPE_ENTRY = U('implies(name_of(x) in self.__items, name_of(self.__items[name_of(x)]) == name_of(x))', x='Refl')


def inv(o: str) -> str:
	"""Every listed key stands after every key its row refers to (within the module)."""
	return f'ordered(self.__items, {M}, {o})'


def covered(root: str, o: str, strict: bool = False) -> str:
	return U(f'implies(desc(a, {root}) and {"a != " + root + " and " if strict else ""}mod_of(a) == {M}, name_of(a) in {o})', a='Refl')


RW = {'symbol.attrs': 'attrs_of(symbol)', 'symbol.types.fullyname': 'name_of(symbol)', 'symbol.types.module_path': 'mod_of(symbol)',
	'self.__items[key].attrs': 'attrs_of(self.__items[key])'}
T = {'self': 'SymbolDB', 'symbol': 'Refl', 'attr': 'Refl', M: 'str', 'return': 'None'}

# a key listed at the loop head is still listed after the body (the list only grows at its end)
MONO = 'cut(all(implies(x in prev(orders), x in orders) for x in universe("str")))'
PEND = '([] if pendings is None else pendings)'
RANKS = U(f'implies(desc(a, symbol) and mod_of(a) == {M} and p in {PEND}, krank(name_of(a)) < krank(p))', p='str', a='Refl')

contract(DB, 'SymbolDB._order_keys_recursive', ['C14', 'C05'], types=T, rewrites=RW,
	requires=[f'len({M}) > 0', ACYC, TYPE_ENTRY, RANKS, inv('orders')],
	modifies=['orders'],
	ensures=[
		'orders[:len(old(orders))] == old(orders)', 'len(old(orders)) <= len(orders)',
		# every key the symbol refers to (its type and its type arguments at any depth, within the module) is listed ...
		covered('symbol', 'orders'),
		# ... and (Top) the list stays dependency-ordered: no key before a key its own row refers to
		inv('orders'),
	],
	loops={
		0: Loop(invariant=['0 <= _i', '_i <= len(_seq)', '_seq == attrs_of(symbol)', 'pendings is not None', 'orders[:len(old(orders))] == old(orders)', 'len(old(orders)) <= len(orders)',
			U(f'implies(0 <= j and j < _i and desc(a, attrs_of(symbol)[j]) and mod_of(a) == {M}, name_of(a) in orders)', j='int', a='Refl'), inv('orders')],
			hints_end=[MONO]),
		1: Loop(invariant=['0 <= _i', '_i <= len(_seq)', '_seq == attrs_of(self.__items[key])', 'pendings is not None', 'orders[:len(old(orders))] == old(orders)', 'len(old(orders)) <= len(orders)',
			'key == name_of(symbol)', 'key in self.__items', f'mod_of(symbol) == {M}', 'key not in pendings',
			covered('symbol', 'orders', strict=True),
			U(f'implies(0 <= j and j < _i and desc(a, attrs_of(self.__items[key])[j]) and mod_of(a) == {M}, name_of(a) in orders)', j='int', a='Refl'), inv('orders')],
			hints_end=[MONO]),
	})

SAME_KEYS = U('(k in self.__paths) == (k in self.__items)', k='str')
contract(DB, 'SymbolDB._order_keys', ['C14', 'C05'], types={'self': 'SymbolDB', 'return': 'list[str]', 'paths': 'tuple[str, str]'}, rewrites={'self.__paths.items()': 'path_items(self.__paths)'},
	requires=[f'{M} is not None', f'len({M}) > 0', ACYC, TYPE_ENTRY, SAME_KEYS],
	ensures=[
		# Top: import never refers to a key not yet present - every key is listed after all keys its row refers to
		inv('result'),
		# every key of the module is exported
		U(f'implies(k in self.__paths and self.__paths[k][0] == {M}, k in result)', k='str'),
	],
	loops={0: Loop(invariant=['0 <= _i', '_i <= len(_seq)', '_seq == path_items(self.__paths)', inv('orders'),
		U(f'implies(0 <= j and j < _i and _seq[j][1][0] == {M}, _seq[j][0] in orders)', j='int')], hints_end=[MONO])})

# ---- the table itself: lookups, insertion, completion marks, import loop
TS = {'self': 'SymbolDB', 'symbol': 'Refl'}
OTHERS_KEPT = U('implies(k != key, (k in self.__items) == (k in old(self.__items)) and (k in self.__paths) == (k in old(self.__paths)))', k='str')
VALUES_KEPT = U('implies(k != key and k in old(self.__items), self.__items[k] == old(self.__items)[k])', k='str')
PATHS_KEPT = U('implies(k in old(self.__paths), k in self.__paths and self.__paths[k] == old(self.__paths)[k])', k='str')

contract(DB, 'SymbolDB.__getitem__', ['C14', 'C04'], types={**TS, 'return': 'Refl'},
	raises={'Errors.SymbolNotDefined': 'key not in self.__items'},
	ensures=['result == self.__items[key]'])

contract(DB, 'SymbolDB.__setitem__', ['C14', 'C04'], types={**TS, 'return': 'None'}, rewrites={'ModuleDSN.parsed(key)': 'dsn_parsed(key)'},
	requires=[SAME_KEYS],
	modifies=['self.__items', 'self.__paths'],
	ensures=['key in self.__items', 'self.__items[key] == symbol', 'key in self.__paths', 'implies(key not in old(self.__paths), self.__paths[key] == dsn_parsed(key))',
		# nothing else changes: the other keys, their symbols and every recorded path stay as they were
		OTHERS_KEPT, VALUES_KEPT, PATHS_KEPT, SAME_KEYS])

contract(DB, 'SymbolDB.completed', ['C14', 'C04'], types={**TS, 'return': 'bool'}, ensures=['result == (module_path in self.__completed)'])
contract(DB, 'SymbolDB.on_complete', ['C14', 'C04'], types={**TS, 'return': 'None'}, modifies=['self.__completed'],
	ensures=['module_path in self.__completed', U('implies(m != module_path, (m in self.__completed) == (m in old(self.__completed)))', m='str'),
		'implies(module_path in old(self.__completed), self.__completed == old(self.__completed))'])

contract(DB, 'SymbolDB.import_json', 'C14', types={**TS, 'serializer': 'Serializer', 'data': 'dict[str, Row]', 'row': 'Row', 'return': 'None'},
	rewrites={'data.items()': 'row_items(data)', 'ModuleDSN.parsed(key)[0]': 'dsn_parsed(key)[0]'},
	stmt_rewrites={'self[key] = serializer.deserialize(self, row)': 'self.__setitem__(key, deser(serializer, self.__items, row))'},
	requires=[SAME_KEYS],
	modifies=['self.__items', 'self.__paths', 'self.__completed'],
	raises={'Errors.Error': None, 'KeyError': None},
	ensures=[
		# every imported key is in the table and its module counts as completed
		U('implies(k in data, k in self.__items and dsn_parsed(k)[0] in self.__completed)', k='str'),
		# existing data is retained: keys outside the imported data keep their symbols, completion marks are only added
		U('implies(k in old(self.__items) and k not in data, k in self.__items and self.__items[k] == old(self.__items)[k])', k='str'),
		U('implies(k in self.__items, k in old(self.__items) or k in data)', k='str'),
		U('implies(m in old(self.__completed), m in self.__completed)', m='str'), SAME_KEYS],
	loops={0: Loop(invariant=['0 <= _i', '_i <= len(_seq)', '_seq == row_items(data)', SAME_KEYS,
		U('implies(0 <= j and j < _i, _seq[j][0] in self.__items and dsn_parsed(_seq[j][0])[0] in self.__completed)', j='int'),
		U('implies(k in old(self.__items) and k not in data, k in self.__items and self.__items[k] == old(self.__items)[k])', k='str'),
		U('implies(k in self.__items, k in old(self.__items) or k in data)', k='str'),
		U('implies(m in old(self.__completed), m in self.__completed)', m='str')])})

DIST = 'all(all(implies(a < b, xs[a] != xs[b]) for b in range(len(xs))) for a in range(len(xs)))'


@lemma(['C14', 'C04', 'C07'], requires=['0 <= i', 'i < k', 'k <= len(xs)', DIST], ensures=['xs[i] not in xs[i + 1:k]'], decreases='k - i')
def lemma_tail_free(xs: list[str], i: int, k: int):
	"""In a duplicate-free list an element does not occur again behind its position."""
	if k > i + 1:
		lemma_tail_free(xs, i, k - 1)
		cut(xs[i + 1:k] == xs[i + 1:k - 1] + [xs[k - 1]])
		cut(xs[k - 1] != xs[i])


@lemma(['C14', 'C04', 'C07'], requires=['x in xs', DIST],
	ensures=['x not in xs[:xs.index(x)] + xs[xs.index(x) + 1:]', 'all(implies(y != x, (y in xs[:xs.index(x)] + xs[xs.index(x) + 1:]) == (y in xs)) for y in universe("str"))'])
def lemma_remove_first(xs: list[str], x: str):
	"""list.remove on a duplicate-free list removes the element and nothing else."""
	lemma_tail_free(xs, xs.index(x), len(xs))


@lemma(['C14', 'C04', 'C07'], requires=['x in xs'], ensures=['0 <= xs.index(x)', 'xs.index(x) < len(xs)', 'xs[xs.index(x)] == x'])
def lemma_index_at(xs: list[str], x: str):
	"""list.index of a member is a position that holds it."""
	pass


NODUP = 'all(all(implies(a < b, self.__completed[a] != self.__completed[b]) for b in range(len(self.__completed))) for a in range(len(self.__completed)))'
contract(DB, 'SymbolDB.unload', ['C04', 'C14', 'C07'], types={**TS, 'return': 'None', 'in_module_keys': 'list[str]'},
	stmt_rewrites={'in_module_keys = [key for key in self.__items.keys() if self.__paths[key][0] == module_path]': 'in_module_keys = keys_of_module(self.__items, self.__paths, module_path)'},
	requires=[SAME_KEYS, NODUP],
	modifies=['self.__items', 'self.__paths', 'self.__completed'],
	# no exception: unloading a module that is only partly loaded (symbols but no completion mark), or not loaded at all, is fine
	raises={},
	hints_entry=['implies(module_path in self.__completed, lemma_remove_first(self.__completed, module_path))'],
	ensures=[
		# exactly the symbols of the module are removed; every other key keeps its symbol and its path
		U('implies(k in self.__items, k in old(self.__items) and old(self.__paths)[k][0] != module_path)', k='str'),
		U('implies(k in old(self.__items) and old(self.__paths)[k][0] != module_path, k in self.__items)', k='str'),
		U('implies(k in self.__items, self.__items[k] == old(self.__items)[k] and self.__paths[k] == old(self.__paths)[k])', k='str'),
		SAME_KEYS,
		# the module no longer counts as completed; the marks of the other modules stay
		'module_path not in self.__completed', U('implies(m != module_path, (m in self.__completed) == (m in old(self.__completed)))', m='str')],
	loops={0: Loop(invariant=['0 <= _i', '_i <= len(_seq)', '_seq == keys_of_module(old(self.__items), old(self.__paths), module_path)', SAME_KEYS,
		# the keys listed so far are gone, nothing else is, and what stays is untouched
		U('implies(0 <= j and j < _i, _seq[j] not in self.__items)', j='int'),
		U('implies(k in old(self.__items) and k not in self.__items, k in _seq and _seq.index(k) < _i)', k='str'),
		U('implies(k in old(self.__items) and old(self.__paths)[k][0] != module_path, k in self.__items)', k='str'),
		U('implies(k in self.__items, k in old(self.__items) and self.__items[k] == old(self.__items)[k] and self.__paths[k] == old(self.__paths)[k])', k='str'),
		'module_path not in self.__completed', U('implies(m != module_path, (m in self.__completed) == (m in old(self.__completed)))', m='str')],
		hints_head=['all(implies(k in _seq, lemma_index_at(_seq, k)) for k in universe("str"))'],
		hints_exit=['all(implies(k in _seq, lemma_index_at(_seq, k)) for k in universe("str"))',
			'cut(all(implies(k in _seq, k not in self.__items) for k in universe("str")))',
			'cut(all(implies(k in old(self.__items) and old(self.__paths)[k][0] == module_path, k in _seq) for k in universe("str")))'])})

TRUSTED_BASE = ['IReflection.attrs / types.fullyname / types.module_path as uninterpreted observers of an opaque reflection identity; reachability through attrs axiomatised by its unfolding (reflexive, closed under children, every proper descendant is reached through a child)']
ASSUMPTIONS = ['the type-reference graph of the table is acyclic within the exported module (a rank on keys exists); the entry stored under a type name is that type\'s own symbol; module paths are non-empty: preconditions of the export contracts, validated natively on every table the twin builds',
	'to_json builds its dict from the ordered key list: a dict comprehension keeps first-insertion order (Python semantics, not modelled)',
	'import side (deserialize, _deserialize_attrs) and the symbol-by-symbol comparison: bounded twin only']


def extra_checks(tier, seed, active_known):
	from pyvc.driver import Extra
	from twins import symdb_twin
	n, rows, fails = symdb_twin.run(tier, seed)
	x = Extra(name='import(export(db, M)) into a table holding the other modules restores every symbol of M (type description at every depth, declaration, node), marks M completed, never looks up a missing key, and is idempotent', kind='bounded', ok=not fails, cases=n,
		bound='every module of the fixture application (library stubs, typing, the reflections fixture) + 4 fixed and 60 (quick) / 400 (thorough) generated modules: 1-4 plain/generic classes, 0-2 type variables, methods and functions with up to 12 parameters, type arguments nested to depth 4, declarations in shuffled order (forward references)',
		detail=f'{rows} exported rows, {len(fails)} failures', samples=[{'program': symdb_twin.FIXED[0], 'verdict': 'restored symbol by symbol'}])
	x.distinct = n
	if fails:
		x.violation = {'what': fails[0]['what'], 'function': 'rogw/tranp/semantics/reflection/db.py / serializer.py', 'inputs': fails[0], 'clause': 'import(export(db, M)) == db restricted to M'}
		x.finding_key = 'symdb-twin'
	return [x]
