"""C04 — Output is deterministic and independent of session history.

Proved (VC): the session tables are maps with exact frames - Entrypoints.load/unload, Modules.load/unload, NodeResolver.resolve
/clear, Memo.get, Memoize.get, SymbolDB (shared with C14): a look-up of something already present returns the stored object
and changes nothing; loading adds exactly the requested entries; unloading removes exactly the requested entry; every other
entry keeps its object.  ("Loading one module never changes the nodes, symbols ... of another", at the level of the tables.)
The memo-key obligations of the node queries are proved under C10.
Bounded (never counted as proved): the whole-pipeline statement - every transpile inside a history equals the same request in
a fresh process, across PYTHONHASHSEED values - by the session twin.
"""
from __future__ import annotations
from pyvc.api import contract, Loop
from specs.sessionspec import ENTRYPOINTS, MEMO, MODULES, RESOLVER
import specs.sessionspec  # noqa: F401
import contracts.c14  # noqa: F401  (SymbolDB table operations are shared with C14)

LEVEL = 'proof'
U = lambda body, **vs: body if not vs else U(f'all({body} for {list(vs)[-1]} in universe("{vs[list(vs)[-1]]}"))', **{k: v for k, v in list(vs.items())[:-1]})  # noqa: E731

EP = 'self.__entrypoints'
contract(ENTRYPOINTS, 'Entrypoints.load', 'C04', types={'self': 'Entrypoints', 'return': 'EntrypointNode'},
	rewrites={'self.__loader(ModulePath(module_path, language))': 'ep_load(self.__loader, module_path, language)'},
	modifies=[EP], raises={'Exception': None},
	ensures=[f'module_path in {EP}', f'result == {EP}[module_path]',
		# an entry point that is already loaded is returned as it is, and nothing is loaded
		f'implies(module_path in old({EP}), {EP} == old({EP}))',
		# loading one module leaves every other entry point untouched
		U(f'implies(k != module_path, (k in {EP}) == (k in old({EP})))', k='str'), U(f'implies(k in old({EP}), {EP}[k] == old({EP})[k])', k='str')])
contract(ENTRYPOINTS, 'Entrypoints.unload', 'C04', types={'self': 'Entrypoints', 'return': 'None'},
	modifies=[EP],
	ensures=[f'module_path not in {EP}', U(f'implies(k != module_path, (k in {EP}) == (k in old({EP})))', k='str'), U(f'implies(k in {EP}, {EP}[k] == old({EP})[k])', k='str')])

MD = 'self.__modules'
contract(MODULES, 'Modules.unload', 'C04', types={'self': 'Modules', 'module': 'ModuleObj', 'return': 'None', 'dependant_path': 'str', 'dependant_paths': 'list[str]'},
	rewrites={'self.__dependant_paths(module_path)': 'dependants(self.__modules, module_path)'},
	stmt_rewrites={'self.__loader.unload(module.module_path)': 'mod_unload(self.__loader, module)'},
	modifies=[MD],
	ensures=[f'module_path not in {MD}',
		# unloading only removes: every module that stays is the object it was (dependants of the unloaded module are removed with it)
		U(f'implies(k in {MD}, k in old({MD}) and {MD}[k] == old({MD})[k])', k='str'),
		f'implies(module_path not in old({MD}), {MD} == old({MD}))'],
	loops={0: Loop(invariant=['0 <= _i', '_i <= len(_seq)', f'module_path not in {MD}', U(f'implies(k in {MD}, k in old({MD}) and {MD}[k] == old({MD})[k])', k='str'), 'self.__loader == old(self.__loader)', 'self.__library_paths == old(self.__library_paths)', 'self.__module_paths == old(self.__module_paths)'])})

KEPT = U(f'implies(k in old({MD}), k in {MD} and {MD}[k] == old({MD})[k])', k='str')
contract(MODULES, 'Modules.load', 'C04', types={'self': 'Modules', 'return': 'ModuleObj'},
	rewrites={'self.__loader.load(ModulePath(module_path, language))': 'mod_load(self.__loader, module_path, language)'},
	stmt_rewrites={'self.__loader.preprocess(self.__modules[module_path])': 'mod_preprocess(self.__loader, self.__modules[module_path])'},
	modifies=[MD], raises={'Exception': None},
	ensures=[f'module_path in {MD}', f'result == {MD}[module_path]',
		# a module that is already loaded is returned as it is: nothing is loaded, nothing preprocessed again
		f'implies(module_path in old({MD}), {MD} == old({MD}))',
		# Top: loading never replaces a module that is already in the session
		KEPT])
contract(MODULES, 'Modules.libralies', 'C04', types={'self': 'Modules', 'return': 'list[ModuleObj]', 'module_path': 'ModulePath'},
	modifies=[MD], raises={'Exception': None}, ensures=[KEPT],
	stmt_rewrites={'return [self.load(module_path.path, module_path.language) for module_path in self.__library_paths]':
		'out: list[ModuleObj] = []\nfor module_path in self.__library_paths:\n\tm = self.load(module_path.path, module_path.language)\n\tout.append(m)\nreturn out'},
	loops={0: Loop(invariant=['0 <= _i', '_i <= len(_seq)', KEPT])})
contract(MODULES, 'Modules.__load_libraries', 'C04', types={'self': 'Modules', 'return': 'None', 'path': 'ModulePath'},
	modifies=[MD], raises={'Exception': None}, ensures=[KEPT])
contract(MODULES, 'Modules.__load_dependencies', 'C04', types={'self': 'Modules', 'via_module': 'ModuleObj', 'return': 'None', 'import_node': 'str'},
	rewrites={'via_module.entrypoint.imports': 'import_paths(via_module)', 'import_node.import_path.tokens': 'import_node'},
	modifies=[MD], raises={'Exception': None}, ensures=[KEPT],
	loops={0: Loop(invariant=['0 <= _i', '_i <= len(_seq)', KEPT])})

INS = 'self.__insts'
contract(RESOLVER, 'NodeResolver.resolve', 'C04', types={'self': 'NodeResolver', 'return': 'NodeObj', 'ctor': 'Ctor', 'ctors': 'list[Ctor]'},
	rewrites={'self.__resolver.resolve(symbol)': 'ctors_of(self.__resolver, symbol)', 'ctor.match_feature(dummy)': 'match_feature(ctor, full_path, self.__invoker)', 'self.__invoker(ctor, full_path)': 'make_node(self.__invoker, ctor, full_path)'},
	stmt_rewrites={'dummy = self.__invoker(Node, full_path)': 'pass'},
	modifies=[INS], raises={'Errors.UnresolvedNode': None, 'Exception': None},
	ensures=[f'full_path in {INS}', f'result == {INS}[full_path]',
		# a path that was resolved before gives the same instance, whatever symbol is asked now
		f'implies(full_path in old({INS}), {INS} == old({INS}))',
		U(f'implies(k != full_path, (k in {INS}) == (k in old({INS})))', k='str'), U(f'implies(k in old({INS}), {INS}[k] == old({INS})[k])', k='str')],
	loops={0: Loop(invariant=['0 <= _i', '_i <= len(_seq)', f'{INS} == old({INS})', f'full_path not in {INS}', 'self.__invoker == old(self.__invoker)', 'self.__resolver == old(self.__resolver)'])})
contract(RESOLVER, 'NodeResolver.clear', 'C04', types={'self': 'NodeResolver', 'return': 'None'}, modifies=[INS], ensures=[U(f'k not in {INS}', k='str')])

contract(MEMO, 'Memo.get', ['C04', 'C10'], types={'self': 'Memo', 'return': 'CacheVal'},
	rewrites={'self._factory()': 'call_fac(self._factory)'},
	modifies=['self._result'], raises={'Exception': None},
	ensures=['self._result is not None', 'result == self._result',
		# the first computed value is kept: later calls do not run the factory again
		'implies(old(self._result) is not None, result == old(self._result))', 'implies(old(self._result) is None, result == call_fac(self._factory))'])
MM = 'self._memos'
contract(MEMO, 'Memoize.get', ['C04', 'C10'], types={'self': 'Memoize', 'key': 'str', 'factory': 'Factory', 'return': 'CacheVal'},
	stmt_rewrites={'return self._memos[key].get()': 'memo = self._memos[key]\nvalue = memo.get()\nself._memos[key] = memo\nreturn value'},
	modifies=[MM], raises={'Exception': None},
	ensures=[f'key in {MM}', f'{MM}[key]._result is not None', f'result == {MM}[key]._result',
		# Top (history independence needs this): under a key the first factory decides the value; a later request with another factory gets the stored value
		f'implies(key in old({MM}) and old({MM})[key]._result is not None, result == old({MM})[key]._result)',
		f'implies(key in old({MM}), {MM}[key]._factory == old({MM})[key]._factory)',
		f'implies(key not in old({MM}), result == call_fac(factory) and {MM}[key]._factory == factory)',
		U(f'implies(k != key, (k in {MM}) == (k in old({MM})))', k='str'), U(f'implies(k != key and k in old({MM}), {MM}[k] == old({MM})[k])', k='str')])

TRUSTED_BASE = ['loaders, node constructors, match_feature and memoised factories as assumed externals that touch the session tables only through the contracted operations']
ASSUMPTIONS = ['an object stored in a table and mutated in place (Memo inside Memoize._memos) is read as take / mutate / put back (stated statement rewrite)',
	'determinism of everything between the tables (inference, templates, set / dict iteration orders) is not decided by contracts: bounded session twin only',
	'Node.prop_keys class-level cache: closed check under C09; memo keys of node queries: C10']


def extra_checks(tier, seed, active_known):
	from pyvc.driver import Extra
	from twins import session_twin
	n, fails, pool = session_twin.run(tier, seed)
	x = Extra(name='every transpile(m) inside a history of load / transpile / unload operations equals transpile(m) in a fresh process, for several PYTHONHASHSEED values', kind='bounded', ok=not fails, cases=n,
		bound='one generated pool of 4 modules (shared generic base with methods of 2-3 own type variables; users iterating dict.items / enumerate / nested user generics with different actual types; equal names in different modules); fresh-process references; PYTHONHASHSEED 1, 7 (quick) / 7 values (thorough); 4 (quick) / 30 (thorough) random histories of 4-9 operations followed by a transpile of every module in random order; real TranspileApp wiring, caching disabled',
		detail=f'{len(fails)} differing outcomes', samples=[{'history': [['transpile', 'src.m1'], ['unload', 'src.m1'], ['transpile', 'src.m2']], 'verdict': 'equal to fresh process'}])
	x.distinct = n
	if fails:
		x.violation = {'what': fails[0]['what'], 'function': 'whole pipeline (rogw/tranp/bin/transpile.py wiring)', 'inputs': {**fails[0], 'pool': pool}, 'clause': 'transpile(m) in history == transpile(m) in a fresh process'}
		x.finding_key = 'session-twin'
	from twins import default_args_lint
	import os as _os
	nd, badd = default_args_lint.run(_os.environ.get('PYVC_REPO', '/repo'))
	lint = Extra(name='no parameter with a mutable default value (one object shared by every call: hidden per-process state) is mutated, stored or returned', kind='closed', ok=not badd, cases=nd, exhaustive=True,
		detail=f'{nd} parameters with a list / dict / set default under rogw/, {len(badd)} of them escape')
	if badd:
		b0 = badd[0]
		lint.violation = {'what': f"{b0['file']}:{b0['function']}: parameter {b0['parameter']} = {b0['default']} is one object for all calls and {b0['why']}: what a call does depends on the calls before it", 'function': f"{b0['file']}:{b0['function']}", 'inputs': b0, 'clause': 'no state survives a call through a default argument'}
		lint.finding_key = 'default-args-lint'
	return [x, lint]
