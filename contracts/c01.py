"""C01 — Transpiled C++ behaves like the Python source (claimed for the expression-grouping clause; the rest is bounded).

Closed obligations decided by evaluation on every run (exhaustive over the table, no quantifier left): for every pair of
operator levels of the Python grammar (ternary, or, and, not, four comparison operators, | ^ &, shifts, + -, * %, unary - ~)
and every operand position in which Python lets the inner expression stand without parentheses, the C++ text emitted by the
real pipeline, read with C++'s precedence, has the grouping Python gives the source (421 compositions).  By the compositional
rendering (a handler inserts the texts of its operands verbatim into its template) pairwise protection carries to every depth;
that step is an argument, not a machine-checked proof, and is backed by the bounded run below.
Proved (VC): the two handlers that protect operands - on_not_compare parenthesises a binary operand, on_comparison
parenthesises bitwise operands - against the abstract node interface.
Bounded (never counted as proved): generated scalar functions are compiled with g++ -std=c++20 and run against CPython.
Everything else in the statement (classes, containers, closures, exceptions, strings ...) is not decided.
"""
from __future__ import annotations
from pyvc.api import contract, Loop
from specs.cppspec import PY2CPP
import specs.cppspec  # noqa: F401

LEVEL = 'proof'

contract(PY2CPP, 'Py2Cpp.on_not_compare', 'C01', types={'self': 'Py2CppObj', 'node': 'OpNode', 'return': 'str'},
	rewrites={'isinstance(node.value, defs.BinaryOperator)': 'is_binop(operand_of(node))'},
	stmt_rewrites={"return self.render(node, 'operation/unary_operator', vars={'operator': '!', 'value': protected})": "return render_unary(self, node, '!', protected)"},
	ensures=[
		# C++'s ! binds tighter than every binary operator: a binary operand is emitted inside parentheses
		"implies(is_binop(operand_of(node)), result == render_unary(self, node, '!', '(' + value + ')'))",
		"implies(not is_binop(operand_of(node)), result == render_unary(self, node, '!', value))"])

contract(PY2CPP, 'Py2Cpp.on_comparison', 'C01', types={'self': 'Py2CppObj', 'node': 'OpNode', 'return': 'str', 'in_node': 'OpNode', 'element': 'str'},
	rewrites={'isinstance(in_node, bitwise_types)': 'is_bitwise(in_node)', 'node.elements': 'elements_of(node)'},
	stmt_rewrites={'bitwise_types = (defs.OrBitwise, defs.XorBitwise, defs.AndBitwise)': 'pass',
		"protected = [f'({element})' if isinstance(in_node, bitwise_types) else element for in_node, element in zip(node.elements, elements)]":
			"protected: list[str] = []\nfor k in range(len(elements)):\n\tprotected.append('(' + elements[k] + ')' if is_bitwise(elements_of(node)[k]) else elements[k])",
		'return self.proc_binary_operation(node, protected)': 'return binary_chain(self, node, protected)'},
	requires=['len(elements_of(node)) == len(elements)'],
	raises={'Exception': None},
	ghost_params={'P': 'list[str]'},
	ensures=[
		# C++'s | ^ & bind looser than its comparison operators: a bitwise operand of a comparison is emitted inside parentheses
		"implies(len(P) == len(elements) and all(P[k] == ('(' + elements[k] + ')' if is_bitwise(elements_of(node)[k]) else elements[k]) for k in range(len(elements))), result == binary_chain(self, node, P))"],
	loops={0: Loop(invariant=['0 <= _i', '_i <= len(elements)', 'len(protected) == _i',
		"all(protected[j] == ('(' + elements[j] + ')' if is_bitwise(elements_of(node)[j]) else elements[j]) for j in range(_i))"])})

TRUSTED_BASE = ['node classes as an abstract interface (operand, elements, is-binary, is-bitwise); the Jinja templates operation/unary_operator.j2 and binary_operator.j2 as assumed externals',
	'the C++ operator precedence table of the checker (twins/cpp_worker.py: || && | ^ & ==,!= <,<=,>,>= <<,>> +,- *,/,% unary) and g++ 12 -std=c++20']
ASSUMPTIONS = ['compositional rendering (operand texts are inserted verbatim): pairwise protection extends to every nesting depth - argued, not machine-checked',
	'the zip comprehension of on_comparison is read as an index loop (the two lists have equal length: precondition) (stated statement rewrite)',
	'only the expression-grouping clause and scalar control flow are decided; classes, containers, strings, closures, exceptions, type inference are not']


def _worker(tier, seed):
	import json
	import os
	import subprocess
	from twins.pipeline import PY313, REPO, SITE
	env = dict(os.environ)
	env['PYTHONPATH'] = f'{REPO}:{SITE}'
	env['PYVC_REPO'] = REPO
	p = subprocess.run([PY313, os.path.join(os.path.dirname(os.path.dirname(os.path.abspath(__file__))), 'twins', 'cpp_worker.py'), tier, str(seed)], env=env, capture_output=True, text=True, timeout=3000)
	import shutil
	shutil.rmtree(os.path.join(REPO, '.cache'), ignore_errors=True)
	lines = [ln for ln in p.stdout.strip().split('\n') if ln.startswith('{')]
	if not lines:
		raise RuntimeError(f'cpp worker gave no result: rc={p.returncode} {p.stderr[-400:]}')
	return json.loads(lines[-1])


_CACHE = {}


def _cached(tier, seed):
	if (tier, seed) not in _CACHE:
		_CACHE[(tier, seed)] = _worker(tier, seed)
	return _CACHE[(tier, seed)]


def known_chain(kf):
	"""Witness of F-C01-c: a comparison chain still evaluates differently from CPython."""
	d = _cached('quick', 0)
	return any(c['source'] == kf['witness']['source'] for c in d['chains'])


def extra_checks(tier, seed, active_known):
	from pyvc.driver import Extra
	d = _cached(tier, seed)
	out = []
	tf = d['table_fails']
	x = Extra(name='operator-pair table: for every composition outer(inner) that Python accepts without parentheses, the emitted C++ text read with C++ precedence has Python\'s grouping', kind='closed', ok=not tf, cases=d['table'], exhaustive=True,
		detail=f"{d['table']} compositions of 19 operator levels x operand positions, {len(tf)} wrongly grouped", samples=[{'source': 'not a == b', 'emitted': '!(a == b)'}])
	if tf:
		x.violation = {'what': f"{tf[0]['source']!r} is emitted as {tf[0]['emitted']!r}: {tf[0]['what']}", 'function': 'rogw/tranp/implements/cpp/transpiler/py2cpp.py (operator handlers) with data/cpp/template/operation/*.j2', 'inputs': tf[0], 'clause': 'C++ grouping of the emitted text == Python grouping of the source'}
		x.finding_key = 'table:' + tf[0]['pair']
	out.append(x)
	for c in d['chains']:
		y = Extra(name=f"comparison chain {c['source']}", kind='bounded', ok=False, cases=1, detail=f"emitted {c['emitted']!r}: C++ {c['cpp']} vs CPython {c['python']} at {c['args']}")
		y.violation = {'what': f"comparison chain {c['source']!r} is emitted as {c['emitted']!r}; with (a, b, c) = {c['args']} the C++ gives {c['cpp']}, CPython gives {c['python']}", 'function': 'rogw/tranp/implements/cpp/transpiler/py2cpp.py:Py2Cpp.on_comparison', 'inputs': c, 'clause': 'run_cpp(transpile(P), a) == run_python(P, a)'}
		y.finding_key = 'chain:' + c['source']
		out.append(y)
	fails = d['fails']
	z = Extra(name='generated scalar functions: the emitted C++ is accepted by g++ -std=c++20 and returns what CPython returns', kind='bounded', ok=not fails, cases=d['runs'],
		bound='30 (quick) / 300 (thorough) functions of three int parameters: + - * & | ^ << >> unary - ~, comparisons, and/or/not, ternary, expressions of depth <= 2, if/elif/else, for-range with break/continue, while, augmented assignment, nesting <= 2; 8 argument vectors each; functions that overflow 2**30 or raise in CPython are skipped',
		detail=f"{d['programs']} functions, {d['runs']} runs, {d['skipped']} skipped, {len(fails)} failures", samples=[{'program': 'def fn(a: int, b: int, c: int) -> int: return c if 7 == 1 else a if not 2 == c else 2 * 1', 'verdict': 'equal results'}])
	z.distinct = d['runs']
	if fails:
		z.violation = {'what': fails[0]['what'], 'function': 'whole pipeline (Py2Cpp)', 'inputs': fails[0], 'clause': 'run_cpp(transpile(P), a) == run_python(P, a)'}
		z.finding_key = 'cpp-run-twin'
	out.append(z)
	return out
