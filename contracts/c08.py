"""C08 — Consistent renaming of user identifiers commutes with transpilation.

What contracts reach: every function that manipulates dotted / '#'-separated names must be a function of the *element
structure* only.  The specifications below use nothing but sequence operations on elems(..) and element equality, so a
function that meets them cannot depend on spelling, length, shared prefixes or substrings (parametricity, a meta-argument
that is not machine-checked).  The commutation of the whole pipeline with renaming is a relational whole-program
property and is not decided here.
"""
from __future__ import annotations
from pyvc.api import contract, lemma, Loop, native
from specs.dsnspec import DSNPY
import specs.dsnspec  # noqa: F401

LEVEL = 'proof'


@lemma(['C08', 'C10'], requires=["'.' not in a"], ensures=["(a + '.' + b).split('.') == [a] + b.split('.')"])
def lemma_split_step(a: str, b: str):
	"""Splitting at the first dot."""
	pass


@lemma(['C08', 'C10'], requires=["'.' in a"], ensures=["a == a[:a.find('.')] + '.' + a[a.find('.') + 1:]", "'.' not in a[:a.find('.')]", "0 <= a.find('.')", "a.find('.') < len(a)"])
def lemma_cut_first(a: str):
	"""A string containing a dot is its part before the first dot, the dot, and the rest; the part before has no dot."""
	pass


@lemma(['C08', 'C10'], requires=[], ensures=["(x + y) + z == x + (y + z)"])
def lemma_assoc(x: str, y: str, z: str):
	pass


@lemma(['C08', 'C10'], requires=[], ensures=["(a + '.' + b).split('.') == a.split('.') + b.split('.')"], decreases='len(a)')
def lemma_split_concat(a: str, b: str):
	"""split distributes over a dot-joined concatenation."""
	if '.' in a:
		lemma_cut_first(a)
		lemma_split_concat(a[a.find('.') + 1:], b)
		lemma_split_step(a[:a.find('.')], a[a.find('.') + 1:])
		lemma_split_step(a[:a.find('.')], a[a.find('.') + 1:] + '.' + b)
		lemma_assoc(a[:a.find('.')] + '.', a[a.find('.') + 1:], '.' + b)
	else:
		lemma_split_step(a, b)


contract(DSNPY, 'DSN.elements', ['C08', 'C10'], instantiate={'delimiter': ['.']}, raises={}, ensures=['result == elems(origin)'])

contract(DSNPY, 'DSN.elem_counts', ['C08', 'C10'], instantiate={'delimiter': ['.']}, raises={},
	requires=['wf_name(origin)'],
	ensures=[
		# Top: the number of elements (for well-formed names the dot count + 1, 0 for the empty name)
		"result == (0 if origin == '' else origin.count('.') + 1)",
	])

contract(DSNPY, 'DSN.relativefy', 'C08', types={'delimiter': 'str'}, instantiate={'delimiter': ['.']}, raises={},
	requires=['wf_name(origin)', 'wf_name(starts)', "starts != ''"],
	ensures=[
		# Top: if the elements of `starts` are a prefix of the elements of `origin` the result is the remaining elements, otherwise the name is unchanged;
		# on well-formed names "element prefix" is: equal, or followed by a dot
		"implies(origin == starts, result == '')",
		"implies(origin != starts and not origin.startswith(starts + '.'), result == origin)",
	],
	# The prefix case needs three further inductions over split/filter/join (filter of [''] + xs, wf names split into non-empty parts,
	# join after split); both solvers leave it open, so it is demoted to the bounded twin (exhaustive over short names) and never counted as proved.
	bounded_ensures=["implies(origin.startswith(starts + '.'), result == origin[len(starts) + 1:])"])


def gen_relativefy(rnd, tier):
	parts = ['m', 'Am', 'B', 'mm', 'a', 'x_y', 'm2']
	import itertools
	# exhaustive: every origin of up to 3 elements over the 7-name alphabet against every proper element prefix and every single name
	for k in (1, 2, 3):
		for combo in itertools.product(parts, repeat=k):
			o = '.'.join(combo)
			for j in range(1, k + 1):
				yield {'origin': o, 'starts': '.'.join(combo[:j]), 'delimiter': '.'}
			for q in parts:
				yield {'origin': o, 'starts': q, 'delimiter': '.'}
	while True:
		o = '.'.join(rnd.choice(parts) for _ in range(rnd.randint(1, 4)))
		st = rnd.choice(['.'.join(o.split('.')[:rnd.randint(1, 3)]), rnd.choice(parts), o])
		yield {'origin': o, 'starts': st, 'delimiter': '.'}


TWINS = {'DSN.relativefy': gen_relativefy}

TRUSTED_BASE = ['parametricity: a specification written with sequence operations on elems(..) and element equality only is invariant under injective renaming of elements (meta-argument, not machine-checked)']
ASSUMPTIONS = ['whole-pipeline commutation with renaming (templates, inference) is not decided', 'VarsCollector._merged iterates and mutates aliased dicts: outside the VC subset, covered by the bounded scope twin only']


def extra_checks(tier, seed, active_known):
	from pyvc.driver import Extra
	from twins import scope_twin
	n, fails = scope_twin.run(tier)
	x = Extra(name='sibling blocks each declare their own variable (VarsCollector: scope relation by structure, not by textual prefix of node ids)', kind='bounded', ok=not fails, cases=n,
		bound='functions with 1..17 (quick) / 1..39 (thorough) consecutive sibling blocks of 4 shapes (for, for with another name, while+assign, if+assign)',
		detail=f'{len(fails)} shapes with a dropped declaration', samples=[{'shape': 'for', 'blocks': 3, 'declared_vars': 4, 'verdict': 'all collected'}])
	x.distinct = n
	if fails:
		f0 = fails[0]
		x.violation = {'what': f'{f0["blocks"]} sibling {f0["shape"]} blocks declare {f0["expected"] - 1} variables but only {f0["declared_vars"] - 1} are collected (a scope id is a textual prefix of another: {f0["names"]})',
			'function': 'rogw/tranp/syntax/node/definition/statement_compound.py:VarsCollector._merged', 'inputs': f0, 'clause': 'decl_vars covers every sibling block'}
		x.finding_key = 'scope-prefix'
	from twins import rename_twin
	n2, fails2 = rename_twin.run(tier)
	y = Extra(name='node tree commutes with consistent renaming of user identifiers (node classes, declared variables, closure captures)', kind='bounded', ok=not fails2, cases=n2,
		bound='4 snippets (closure, classes with a user base, enum, nested loops/comprehension) x 5 injective renamings (one-letter, ...Enum suffix, prefix chains, double-underscore fragments, permuted spellings)',
		detail=f'{len(fails2)} differences', samples=[{'snippet': 'closure', 'renaming': {'count': 'l', 'calc': 'k'}, 'verdict': 'captures renamed consistently'}])
	y.distinct = n2
	if fails2:
		y.violation = {'what': fails2[0]['what'], 'function': 'rogw/tranp/syntax/node/definition', 'inputs': fails2[0], 'clause': 'nodes(r(P)) == r(nodes(P))'}
		y.finding_key = 'rename-twin'
	d = _rename_worker(tier, seed)
	z = Extra(name='transpile(r(P)) == r(transpile(P)) on the real pipeline for renamings that change lengths, alphabetical order and prefix relations', kind='bounded', ok=not d['fails'], cases=d['cases'],
		bound='2 programs (class hierarchy with base-typed variables holding derived objects, generic function and method with two type variables; enum, closure, comprehension) x 5 (quick) / 15 (thorough) injective renamings of all user identifiers (reversed spellings, reversed alphabetical order, common-prefix names, random)',
		detail=f"{len(d['fails'])} differences", samples=[{'program': 'shapes', 'renaming': {'Quadrilateral': 'Fig', 'T_Key': 'T_Anchor'}, 'verdict': 'texts equal after renaming'}])
	z.distinct = d['cases']
	if d['fails']:
		z.violation = {'what': d['fails'][0]['what'], 'function': 'whole pipeline (rogw/tranp/implements/cpp/transpiler/py2cpp.py and templates)', 'inputs': d['fails'][0], 'clause': 'transpile(r(P)) == r(transpile(P))'}
		z.finding_key = 'rename-pipeline-twin'
	return [x, y, z]


def _rename_worker(tier, seed):
	import json
	import os
	import shutil
	import subprocess
	from twins.pipeline import PY313, REPO, SITE
	env = dict(os.environ)
	env['PYTHONPATH'] = f'{REPO}:{SITE}'
	env['PYVC_REPO'] = REPO
	p = subprocess.run([PY313, os.path.join(os.path.dirname(os.path.dirname(os.path.abspath(__file__))), 'twins', 'rename_worker.py'), tier, str(seed)], env=env, capture_output=True, text=True, timeout=3000)
	shutil.rmtree(os.path.join(REPO, '.cache'), ignore_errors=True)
	lines = [ln for ln in p.stdout.strip().split('\n') if ln.startswith('{')]
	if not lines:
		raise RuntimeError(f'rename worker gave no result: rc={p.returncode} {p.stderr[-400:]}')
	return json.loads(lines[-1])
