"""C15 — The stored form of a syntax tree restores an identical tree.

Serialization.__dumps / __loads recurse over third-party lark objects and heterogeneous dicts; bringing them into the VC
subset would mean replacing most of their statements by assumed readings, i.e. proving a model.  The contract is therefore
checked at run time by a bounded, partly exhaustive twin (labelled bounded; nothing here is counted as proved).
"""
LEVEL = 'exploration'
RULE = ('contract V(EntryOfLark(loads(json(dumps(T))))) == V(EntryOfLark(T)) evaluated on (a) every lark tree with <= 4 nodes (5 in the thorough tier) over '
	'6 leaf kinds (tokens with multi-line / unset / zero / empty-value positions, None placeholders), 2 rule names and 3 meta variants (empty, multi-line, one-line) '
	'and (b) real parse trees of fixed snippets and repository modules; a case is non-trivial if its view is distinct (hash of the full view)')
TRUSTED_BASE = ['lark.Tree / lark.Token / lark.tree.Meta attribute semantics', 'json round trip (tuples become lists)']
ASSUMPTIONS = ['bounded: trees beyond the enumerated size and parse shapes not in the sample are not covered']


def extra_checks(tier, seed, active_known):
	from pyvc.driver import Extra
	from twins import lark_twin
	n, distinct, fails = lark_twin.search(tier, seed)
	x = Extra(name='cache-encoding round trip (Serialization.dumps/loads, EntryOfLark view)', kind='bounded', ok=not fails, cases=n, exhaustive=True,
		bound='all lark trees with <= 4 (quick) / 5 (thorough) nodes over the stated alphabet + real parse trees', detail=f'{distinct} distinct views, {len(fails)} mismatches',
		samples=[{'tree': "('tree','rule_a','pos',(('leaf',('tok','STR',(2,1,3,3))),('leaf',('none',))))", 'verdict': 'views equal'}])
	x.distinct = distinct
	if fails:
		x.violation = {'what': f'restored tree differs from the fresh one: {fails[0].get("fresh", "")[:200]} vs {fails[0].get("restored", "")[:200]}', 'function': 'rogw/tranp/implements/syntax/lark/entry.py:Serialization', 'inputs': fails[0], 'clause': 'V(restored) == V(fresh)'}
		x.finding_key = 'lark-roundtrip'
	return [x]


def replay_hook(d):
	from twins import lark_twin
	w = d['inputs']
	if w.get('kind') == 'small-tree':
		a, b = lark_twin.roundtrip(lark_twin.build(eval(w['spec'])))
	else:
		return None
	return 'ok: views equal' if a == b else f'violated: {lark_twin.first_diff(a, b)}'
