"""C15 — The stored form of a syntax tree restores an identical tree.

Proved (VC) over lark entries and stored entries as opaque identities with observers (kind, name, value, children, recorded
positions): EntryOfLark.source_map reports `span_view`; Serialization.__dumps produces the stored form (`stored_as`: name,
value, the span the view reports incl. the (0,0,0,0) fallbacks, children pointwise, None slots); Serialization.__loads builds
an entry with exactly the stored data (`restored_as`); and, by induction over the tree (lemma), what is loaded from the stored
form of an entry looks the same through EntryOfLark as the entry itself (`same_view`).
Bounded (labelled, never counted as proved): the same statement on real lark objects through the JSON text, exhaustively for
small trees and on real parse trees (this also validates the observer reading of lark.Tree / Token / Meta).
"""
from __future__ import annotations
from pyvc.api import contract, lemma, Loop
from specs.larkspec import ENTRY
import specs.larkspec  # noqa: F401

LEVEL = 'proof'
RULE = ('contract V(EntryOfLark(loads(json(dumps(T))))) == V(EntryOfLark(T)) evaluated on (a) every lark tree with <= 4 nodes (5 in the thorough tier) over '
	'6 leaf kinds (tokens with multi-line / unset / zero / empty-value positions, None placeholders), 2 rule names and 3 meta variants (empty, multi-line, one-line) '
	'and (b) real parse trees of fixed snippets and repository modules; a case is non-trivial if its view is distinct (hash of the full view)')
TRUSTED_BASE = ['lark.Tree / lark.Token / lark.tree.Meta attribute semantics as observers (kind, data/type, value, children, meta usable, positions; unset positions read as 0: the code only tests their truthiness)',
	'json round trip (tuples become lists) preserves the stored data']
ASSUMPTIONS = ['dict literals / lark constructors are read as constructors of the abstract stored / lark entry (statement rewrites listed in the evidence); finite trees (height functions)',
	'EntryStored.save / load (file and json plumbing) assumed; the bounded twin runs the real objects through the JSON text']

E = 'self.__entry'
EOL = {f'type({E}) is lark.Tree': f'le_kind({E}) == 1', f'type({E}) is lark.Token': f'le_kind({E}) == 2', f'{E} is None': f'le_kind({E}) == 0',
	f'{E}.data': f'le_data({E})', f'{E}.type': f'le_data({E})', f'{E}.value': f'le_value({E})', f'{E}.children': f'le_children({E})',
	f'type({E}) is lark.Tree and {E}.meta is not None and (not {E}.meta.empty)': f'le_kind({E}) == 1 and le_meta_ok({E})',
	f'type({E}) is lark.Token and {E}.line and {E}.column and {E}.end_line and {E}.end_column': f'le_kind({E}) == 2 and le_pos({E})[0] != 0 and le_pos({E})[1] != 0 and le_pos({E})[2] != 0 and le_pos({E})[3] != 0',
	f'{E}.meta.line': f'le_pos({E})[0]', f'{E}.meta.column': f'le_pos({E})[1]', f'{E}.meta.end_line': f'le_pos({E})[2]', f'{E}.meta.end_column': f'le_pos({E})[3]',
	f'{E}.line': f'le_pos({E})[0]', f'{E}.column': f'le_pos({E})[1]', f'{E}.end_line': f'le_pos({E})[2]', f'{E}.end_column': f'le_pos({E})[3]'}

contract(ENTRY, 'EntryOfLark.source_map', 'C15', types={'self': 'EntryOfLark', 'return': 'dict[str, tuple[int, int]]'}, rewrites=EOL,
	ensures=["'begin' in result", "'end' in result",
		# the reported span is the recorded one when it is usable and (0, 0)-(0, 0) otherwise
		"result['begin'] == (span_view(self.__entry)[0], span_view(self.__entry)[1])", "result['end'] == (span_view(self.__entry)[2], span_view(self.__entry)[3])"])
for _p, _t in [('name', 'str'), ('has_child', 'bool'), ('is_terminal', 'bool'), ('value', 'str'), ('is_empty', 'bool'), ('source', 'LE')]:
	contract(ENTRY, f'EntryOfLark.{_p}', 'C15', types={'self': 'EntryOfLark', 'return': _t}, rewrites={**EOL, 'self.empty_name': "'__empty__'"}, inline_only=True)
contract(ENTRY, 'EntryOfLark.children', 'C15', types={'self': 'EntryOfLark', 'return': 'list[EntryOfLark]', 'in_entry': 'LE'}, rewrites=EOL,
	stmt_rewrites={'return [EntryOfLark(in_entry) for in_entry in self.__entry.children] if type(self.__entry) is lark.Tree else []':
		'out: list[EntryOfLark] = []\nif le_kind(self.__entry) == 1:\n\tfor in_entry in le_children(self.__entry):\n\t\tout.append(EntryOfLark(in_entry))\nreturn out'},
	loops={0: Loop(invariant=['0 <= _i', '_i <= len(_seq)', '_seq == le_children(self.__entry)', 'len(out) == _i', 'all(out[j].__entry == _seq[j] for j in range(_i))'])},
	ensures=['implies(le_kind(self.__entry) != 1, len(result) == 0)',
		'implies(le_kind(self.__entry) == 1, len(result) == len(le_children(self.__entry)) and all(result[i].__entry == le_children(self.__entry)[i] for i in range(len(result))))'])

contract(ENTRY, 'Serialization.__dumps', 'C15', types={'entry': 'LE', 'return': 'DE', 'children': 'list[DE]', 'child': 'EntryOfLark', 'proxy': 'EntryOfLark'},
	stmt_rewrites={"return {'name': proxy.name, 'children': children, 'source_map': source_map}": 'return mk_dtree(proxy.name, children, source_map)',
		"return {'name': proxy.name, 'value': proxy.value, 'source_map': source_map}": 'return mk_dtoken(proxy.name, proxy.value, source_map)',
		'return None': 'return de_none()'},
	# Top (first half): the stored form records exactly what the view of the entry shows
	ensures=['stored_as(entry, result)'],
	loops={0: Loop(invariant=['0 <= _i', '_i <= len(_seq)', 'le_kind(entry) == 1', 'len(_seq) == len(le_children(entry))', 'all(_seq[j]._EntryOfLark__entry == le_children(entry)[j] for j in range(len(_seq)))',
		'len(children) == _i', 'all(stored_as(le_children(entry)[j], children[j]) for j in range(_i))', 'proxy._EntryOfLark__entry == entry'])})

contract(ENTRY, 'Serialization.__loads', 'C15', types={'entry': 'DE', 'return': 'LE', 'children': 'list[LE]', 'child': 'DE', 'entry_tree': 'DE', 'entry_token': 'DE', 'meta': 'LMeta', 'token': 'LTokenB'},
	rewrites={"type(entry) is dict and 'children' in entry": 'de_kind(entry) == 1', "type(entry) is dict and 'value' in entry": 'de_kind(entry) == 2',
		"cast(list[DumpTreeEntry], entry_tree['children'])": 'de_children(entry_tree)',
		"entry_tree['source_map']": 'de_sm(entry_tree)', "entry_tree['name']": 'de_name(entry_tree)',
		"entry_token['source_map']": 'de_sm(entry_token)', "entry_token['name']": 'de_name(entry_token)', "entry_token['value']": 'de_value(entry_token)',
		'lark.tree.Meta()': 'new_meta()', "lark.Token(entry_token['name'], entry_token['value'])": 'new_token(de_name(entry_token), de_value(entry_token))',
		"lark.Tree(entry_tree['name'], children, meta)": 'tree_of(de_name(entry_tree), children, meta)'},
	stmt_rewrites={'entry_tree = cast(DumpTree, entry)': 'entry_tree = entry', 'entry_token = cast(DumpToken, entry)': 'entry_token = entry',
		'return token': 'return token_of(token)', 'return None': 'return le_none()'},
	# Top (second half): loading builds an entry that carries exactly the stored data, position by position, child by child
	ensures=['restored_as(entry, result)'],
	loops={0: Loop(invariant=['0 <= _i', '_i <= len(_seq)', '_seq == de_children(entry)', 'de_kind(entry) == 1', 'entry_tree == entry', 'len(children) == _i',
		'all(restored_as(de_children(entry)[j], children[j]) for j in range(_i))'])})


@lemma('C15', requires=['stored_as(e, d)', 'restored_as(d, e2)'], ensures=['same_view(e, e2)'], decreases='le_hgt(e)')
def lemma_roundtrip(e: LE, d: DE, e2: LE):
	"""Top: the entry loaded from the stored form of e looks like e through EntryOfLark (induction over the tree)."""
	if le_kind(e) == 1:
		all(lemma_roundtrip(le_children(e)[i], de_children(d)[i], le_children(e2)[i]) for i in range(len(le_children(e))))


def extra_checks(tier, seed, active_known):
	from pyvc.driver import Extra
	from twins import lark_twin
	n, distinct, fails = lark_twin.search(tier, seed)
	x = Extra(name='cache-encoding round trip (Serialization.dumps/loads, EntryOfLark view)', kind='bounded', ok=not fails, cases=n, exhaustive=True,
		bound='all lark trees with <= 4 (quick) / 5 (thorough) nodes over the stated alphabet + real parse trees', detail=f'{distinct} distinct views, {len(fails)} mismatches',
		samples=[{'tree': "('tree','rule_a','pos',(('leaf',('tok','STR',(2,1,3,3))),('leaf',('none',))))", 'verdict': 'views equal'}])
	x.distinct = distinct
	if fails:
		x.violation = {'what': f'restored tree differs from the fresh one: {fails[0].get("fresh", "")[:200]} vs {fails[0].get("restored", "")[:200]}', 'function': 'rogw/tranp/implements/syntax/lark/entry.py:Serialization', 'inputs': fails[0], 'clause': 'V(restored) == V(fresh)'}
		x.finding_key = 'lark-roundtrip'
	return [x]


def replay_hook(d):
	from twins import lark_twin
	w = d['inputs']
	if w.get('kind') == 'small-tree':
		a, b = lark_twin.roundtrip(lark_twin.build(eval(w['spec'])))
	else:
		return None
	return 'ok: views equal' if a == b else f'violated: {lark_twin.first_diff(a, b)}'
