"""C16 — A node's source span covers exactly the node's own text (the arithmetic tranp itself does).

Line/column addressing is taken in its standard meaning: the line of an offset is the number of newlines before it, the column
is the distance to the character after the last newline before it.  The spans lark computes (propagate_positions) are assumed.
"""
from pyvc.api import contract, lemma, record, native, Loop

LEVEL = 'proof'
TOKEN = 'rogw/tranp/implements/syntax/tranp/token.py'
RENDER = 'rogw/tranp/view/error_render.py'

record('Token.SourceMap', {'begin_line': 'int', 'begin_column': 'int', 'end_line': 'int', 'end_column': 'int'}, source=(TOKEN, 'Token.SourceMap'))
record('ErrorRender.Quotation', {'filepath': 'str', 'begin_line': 'int', 'cause_line': 'str', 'cause_range': 'tuple[int, int]'}, source=(RENDER, 'ErrorRender.Quotation'))


@lemma(['C16', 'C13'], requires=['0 <= a', 'a <= b', 'b <= c', 'c <= len(s)', 'len(ch) == 1'],
	ensures=["s.count(ch, a, b) + s.count(ch, b, c) == s.count(ch, a, c)"], decreases='c - b')
def lemma_count_add(s: str, ch: str, a: int, b: int, c: int):
	"""Occurrence counts over adjacent ranges add up."""
	if c > b:
		lemma_count_add(s, ch, a, b, c - 1)


@lemma(['C16', 'C13'], requires=['0 <= a', 'a <= b', 'b <= len(s)', 'len(ch) == 1'],
	ensures=["implies(s.rfind(ch, a, b) != -1, a <= s.rfind(ch, a, b) and s.rfind(ch, a, b) < b and s[s.rfind(ch, a, b)] == ch)"], decreases='b - a')
def lemma_rfind_at(s: str, ch: str, a: int, b: int):
	"""A found position lies in the range and holds the character."""
	if b > a:
		lemma_rfind_at(s, ch, a, b - 1)


@lemma(['C16', 'C13'], requires=['0 <= a', 'a <= m', 'm <= b', 'b <= len(s)', 'len(ch) == 1'],
	ensures=["implies(s.rfind(ch, m, b) != -1, s.rfind(ch, a, b) == s.rfind(ch, m, b))", "implies(s.rfind(ch, m, b) == -1, s.rfind(ch, a, b) == s.rfind(ch, a, m))"], decreases='b - m')
def lemma_rfind_split(s: str, ch: str, a: int, m: int, b: int):
	"""The last occurrence in [a, b) is the last one in [m, b) if there is one, else the last one in [a, m)."""
	if b > m:
		lemma_rfind_split(s, ch, a, m, b - 1)


@lemma(['C16', 'C13'], requires=['0 <= a', 'a <= b', 'b <= len(s)', 'len(ch) == 1', 's.rfind(ch, a, b) != -1'],
	ensures=["s.rfind(ch, a, s.rfind(ch, a, b) + 1) == s.rfind(ch, a, b)"])
def lemma_rfind_self(s: str, ch: str, a: int, b: int):
	"""The found occurrence is the last one of the range that ends just after it."""
	lemma_rfind_at(s, ch, a, b)


contract(TOKEN, 'Token.SourceMap.make', ['C16', 'C13'], types={'return': 'Token.SourceMap'},
	requires=['0 <= begin', 'begin <= end', 'end <= len(source)'],
	raises={},
	ensures=[
		# Top: the recorded span addresses exactly source[begin:end] -- (line, column) of an offset in the standard sense
		"result.begin_line == source.count('\\n', 0, begin)",
		"result.begin_column == begin - (source.rfind('\\n', 0, begin) + 1)",
		"result.end_line == source.count('\\n', 0, end)",
		"result.end_column == end - (source.rfind('\\n', 0, end) + 1)",
	],
	hints_exit=[
		"lemma_count_add(source, '\\n', 0, begin, end)",
		"lemma_rfind_at(source, '\\n', 0, begin)",
		"lemma_rfind_split(source, '\\n', 0, source.rfind('\\n', 0, begin) + 1, end)",
		"implies(source.rfind('\\n', 0, begin) != -1, lemma_rfind_self(source, '\\n', 0, begin))",
	])

contract(RENDER, 'ErrorRender.Quotation.__cause_range', 'C16', types={'self': 'ErrorRender.Quotation'},
	raises={},
	ensures=[
		# Top: the caret range starts at the node's begin column and ends at its end column on a one-line node, at the end of the quoted line otherwise
		'result[0] == source_map[1]',
		'result[1] == (source_map[3] if source_map[0] == source_map[2] else len(self.cause_line))',
	])

contract(RENDER, 'ErrorRender.Quotation.__build_line_mark', 'C16', types={'self': 'ErrorRender.Quotation'},
	requires=['self.cause_range[0] >= 0'],
	raises={},
	ensures=[
		# Top: blanks up to the begin column, then one caret per column of [begin, end) (at least one)
		"result == ' ' * self.cause_range[0] + '^' * max(1, self.cause_range[1] - self.cause_range[0])",
	])

TRUSTED_BASE = ["lark's propagate_positions gives 1-based spans whose region contains exactly the subtree's tokens (third-party; not provable from tranp's code)",
	'a tab counts as one column (lark) and is rendered as one blank in the quoted line']
ASSUMPTIONS = ['children spans inside parent spans and span/token agreement of parsed nodes are properties of the parser: assumed',
	'Quotation.__load_line (file I/O) is outside the contracts; EntryOfLark.source_map pass-through is covered under C15']


def gen_make(rnd, tier):
	alpha = 'ab \n\n\t#'
	while True:
		n = rnd.randint(0, 12)
		s = ''.join(rnd.choice(alpha) for _ in range(n))
		b = rnd.randint(0, n)
		yield {'source': s, 'begin': b, 'end': rnd.randint(b, n)}


@native
def _q_cause_range(self=None, source_map=None):
	from rogw.tranp.view.error_render import ErrorRender
	q = object.__new__(ErrorRender.Quotation)
	q.cause_line = self['cause_line']
	return q._Quotation__cause_range(tuple(source_map))


@native
def _q_cause_range__prep(kw):
	kw = dict(kw)
	if isinstance(kw.get('self'), dict):
		kw['self'] = _DictObj(kw['self'])
	kw['source_map'] = tuple(kw['source_map'])
	return kw


class _DictObj(dict):
	def __getattr__(self, k):
		if k.startswith('__'):
			raise AttributeError(k)
		return self[k]


@native
def _q_line_mark(self=None):
	from rogw.tranp.view.error_render import ErrorRender
	q = object.__new__(ErrorRender.Quotation)
	q.cause_range = tuple(self['cause_range'])
	return q._Quotation__build_line_mark()


@native
def _q_line_mark__prep(kw):
	kw = dict(kw)
	kw['self'] = _DictObj({**kw['self'], 'cause_range': tuple(kw['self']['cause_range'])})
	return kw


def gen_range(rnd, tier):
	while True:
		bl = rnd.randint(0, 3)
		el = bl + rnd.choice([0, 0, 1, 2])
		yield {'self': {'filepath': 'f.py', 'begin_line': bl, 'cause_line': 'x' * rnd.randint(0, 9), 'cause_range': (0, 0)}, 'source_map': (bl, rnd.randint(0, 6), el, rnd.randint(0, 9))}


def gen_mark(rnd, tier):
	while True:
		b = rnd.randint(0, 6)
		yield {'self': {'filepath': 'f.py', 'begin_line': 0, 'cause_line': '', 'cause_range': (b, rnd.randint(0, 9))}}


from pyvc.api import REG as _REG
_REG.contracts[(RENDER, 'ErrorRender.Quotation.__cause_range')].replay = '_q_cause_range'
_REG.contracts[(RENDER, 'ErrorRender.Quotation.__build_line_mark')].replay = '_q_line_mark'
import contracts.c07 as _c07  # noqa: E402  (the quotation line loader is shared with C07: a line index addresses lines separated by \\n only)
TWINS = {'ErrorRender.Quotation.__load_line': _c07.gen_load_line, 'Token.SourceMap.make': gen_make, 'ErrorRender.Quotation.__cause_range': gen_range, 'ErrorRender.Quotation.__build_line_mark': gen_mark}


def extra_checks(tier, seed, active_known):
	"""Clause 'this holds equally after the tree was restored from the cache': spans of the restored tree equal the fresh ones
	(bounded stand-in shared with C15; never counted as proved)."""
	from pyvc.driver import Extra
	from twins import lark_twin
	n, distinct, fails = lark_twin.search(tier, seed)
	x = Extra(name='spans survive the cache encoding (shared with C15)', kind='bounded', ok=not fails, cases=n, exhaustive=True,
		bound='all lark trees with <= 4 (quick) / 5 (thorough) nodes over the stated alphabet + real parse trees', detail=f'{distinct} distinct views, {len(fails)} mismatches',
		samples=[{'tree': "('tree','rule_a','pos',(('leaf',('tok','STR',(2,1,3,3))),))", 'verdict': 'source_map equal after restore'}])
	x.distinct = distinct
	if fails:
		x.violation = {'what': f'restored span differs: {fails[0].get("fresh", "")[:200]} vs {fails[0].get("restored", "")[:200]}', 'function': 'rogw/tranp/implements/syntax/lark/entry.py:Serialization', 'inputs': fails[0], 'clause': 'span(restored) == span(fresh)'}
		x.finding_key = 'lark-roundtrip-span'
	return [x]
