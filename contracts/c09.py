"""C09 — Every handler receives exactly the results of its own children.

Procedure's stack discipline is verified over an abstract Node interface (prop_keys, single/list properties, their
lengths): given the results of a node's children on top of the stack in property order, the handler's event holds, per
declared property, exactly those results (list vs single, source order), they are removed, and one result is pushed.
The flattening of the tree (Node.procedural) and the Node interface itself are validated by a bounded monitor.
"""
from __future__ import annotations
from pyvc.api import contract, lemma, Loop, native
from specs.procspec import PROC
import specs.procspec  # noqa: F401

LEVEL = 'proof'
STK = {'self.__stack': 'self.__stacks[len(self.__stacks) - 1]'}
T = {'self': 'Procedure', 'node': 'Node', 'return': 'Ret'}


@lemma('C09', requires=['0 <= a', 'a <= b', 'b <= len(keys(n))'], ensures=['need(n, a) <= need(n, b)', '0 <= need(n, a)'], decreases='b')
def lemma_need_mono(n: Node, a: int, b: int):
	"""The number of consumed results grows with the number of properties."""
	if b > 0:
		if a < b:
			lemma_need_mono(n, a, b - 1)
		else:
			lemma_need_mono(n, a - 1, b - 1)


contract(PROC, 'Procedure.__stack_pop', 'C09', types=T, rewrites=STK,
	requires=['len(self.__stacks) >= 1'],
	modifies=['self.__stacks'],
	raises={'AssertionError': 'len(last(self.__stacks)) == 0'},
	ensures=['result == last(last(old(self.__stacks)))', 'self.__stacks == init(old(self.__stacks)) + [init(last(old(self.__stacks)))]'])

contract(PROC, 'Procedure.__result', 'C09', types=T, rewrites=STK,
	requires=['len(self.__stacks) >= 1'],
	modifies=['self.__stacks'],
	raises={'AssertionError': 'len(last(self.__stacks)) != 1'},
	ensures=[
		# Top: processing a tree ends with exactly one result, which is returned
		'result == last(old(self.__stacks))[0]', 'self.__stacks == init(old(self.__stacks)) + [init(last(old(self.__stacks)))]', 'len(last(self.__stacks)) == 0'])

SEG_LO = 'len(T0) - (need(node, len(keys(node))) - need(node, j))'
SEG_HI = 'len(T0) - (need(node, len(keys(node))) - need(node, j + 1))'
EVENT_OK = ('implies(is_list(node, keys(node)[j]), {ev}[keys(node)[j]] == T0[' + SEG_LO + ':' + SEG_HI + ']) and '
	'implies(not is_list(node, keys(node)[j]), {ev}[keys(node)[j]] == T0[' + SEG_LO + '])')

contract(PROC, 'Procedure.__make_event', 'C09', types={**T, 'return': 'dict[str, EventVal]', 'event': 'dict[str, EventVal]', 'prop_keys': 'list[str]'},
	rewrites={**STK, 'reversed(node.prop_keys())': 'rev(keys(node))', 'self.__is_prop_list_by(node, prop_key)': 'is_list(node, prop_key)', 'len(getattr(node, prop_key))': 'prop_len(node, prop_key)'},
	stmt_rewrites={
		# popping `counts` results one by one and reversing them is read as taking the last `counts` results in order
		# (and failing with the AssertionError of __stack_pop when fewer are there); cross-checked by the bounded monitor
		'event[prop_key] = list(reversed([self.__stack_pop() for _ in range(counts)]))':
			'assert counts <= len(self.__stack)\nevent[prop_key] = self.__stack[len(self.__stack) - counts:]\nself.__stacks[len(self.__stacks) - 1] = self.__stack[:len(self.__stack) - counts]',
	},
	lets={'T0': 'last(self.__stacks)'},
	requires=['len(self.__stacks) >= 1', 'distinct_keys(node)'],
	modifies=['self.__stacks'],
	raises={'Errors.Logic': 'len(last(self.__stacks)) < need(node, len(keys(node)))'},
	hints_entry=['lemma_need_mono(node, 0, len(keys(node)))'],
	ensures=[
		# Top: the event holds, per declared property, precisely the results computed for the nodes that property yields
		# (a list of them in source order for a list property, the single one otherwise) ...
		'all(keys(node)[j] in result and ' + EVENT_OK.format(ev='result') + ' for j in range(len(keys(node))))',
		# ... and exactly those results are consumed: nothing of an earlier sibling's results is touched
		'last(self.__stacks) == T0[:len(T0) - need(node, len(keys(node)))]', 'init(self.__stacks) == init(old(self.__stacks))', 'len(self.__stacks) == len(old(self.__stacks))',
	],
	loops={0: Loop(
		invariant=[
			'0 <= _i', '_i <= len(keys(node))', '_seq == rev(keys(node))',
			'len(self.__stacks) == len(old(self.__stacks))', 'init(self.__stacks) == init(old(self.__stacks))',
			'need(node, len(keys(node))) - need(node, len(keys(node)) - _i) <= len(T0)',
			'last(self.__stacks) == T0[:len(T0) - (need(node, len(keys(node))) - need(node, len(keys(node)) - _i))]',
			'all(keys(node)[j] in event and ' + EVENT_OK.format(ev='event') + ' for j in range(len(keys(node)) - _i, len(keys(node))))',
		],
		hints_head=['lemma_need_mono(node, len(keys(node)) - _i, len(keys(node)))', 'implies(_i < len(keys(node)), lemma_need_mono(node, len(keys(node)) - _i - 1, len(keys(node)) - _i))'])})


def extra_checks(tier, seed, active_known):
	from pyvc.driver import Extra
	from twins import procedure_twin
	visited, classes, fails = procedure_twin.run(tier, seed)
	x = Extra(name='identity-valued Procedure over real modules: event(n)[k] == results(getattr(n, k)), one final result, nested exec', kind='bounded', ok=not fails, cases=visited,
		bound='6 snippets (is-not comparisons, parametrised bases, comprehensions, try/lambda/closures, enums) + fixture_reflections.py, example/json.py, the stub library (thorough: + fixture_py2cpp.py)',
		detail=f'{visited} nodes of {classes} node classes, {len(fails)} mismatches', samples=[{'node': 'file_input.class_def', 'event': {'statements': ["('R', 'file_input.class_def')"]}, 'verdict': 'equal'}])
	x.distinct = classes
	if fails:
		x.violation = {'what': fails[0]['what'], 'function': 'rogw/tranp/semantics/procedure.py:Procedure / rogw/tranp/syntax/node/node.py:Node.procedural', 'inputs': fails[0], 'clause': 'event(n)[k] == results(getattr(n, k))'}
		x.finding_key = 'procedure-monitor'
	return [x]
