"""C09 — Every handler receives exactly the results of its own children.

Procedure's stack discipline is verified over an abstract Node interface (prop_keys, single/list properties, their
lengths): given the results of a node's children on top of the stack in property order, the handler's event holds, per
declared property, exactly those results (list vs single, source order), they are removed, and one result is pushed.
The flattening of the tree (Node.procedural) and the Node interface itself are validated by a bounded monitor.
"""
from __future__ import annotations
from pyvc.api import contract, lemma, Loop, native
from specs.procspec import PROC
import specs.procspec  # noqa: F401

LEVEL = 'proof'
STK = {'self.__stack': 'self.__stacks[len(self.__stacks) - 1]'}
T = {'self': 'Procedure', 'node': 'Node', 'return': 'Ret'}


@lemma('C09', requires=['0 <= a', 'a <= b', 'b <= len(keys(n))'], ensures=['need(n, a) <= need(n, b)', '0 <= need(n, a)'], decreases='b')
def lemma_need_mono(n: Node, a: int, b: int):
	"""The number of consumed results grows with the number of properties."""
	if b > 0:
		if a < b:
			lemma_need_mono(n, a, b - 1)
		else:
			lemma_need_mono(n, a - 1, b - 1)


contract(PROC, 'Procedure.__stack_pop', 'C09', types=T, rewrites=STK,
	requires=['len(self.__stacks) >= 1'],
	modifies=['self.__stacks'],
	raises={'AssertionError': 'len(last(self.__stacks)) == 0'}, raise_unchanged=['AssertionError'],
	ensures=['result == last(last(old(self.__stacks)))', 'self.__stacks == init(old(self.__stacks)) + [init(last(old(self.__stacks)))]'])

contract(PROC, 'Procedure.__result', 'C09', types=T, rewrites=STK,
	requires=['len(self.__stacks) >= 1'],
	modifies=['self.__stacks'],
	raises={'AssertionError': 'len(last(self.__stacks)) != 1'}, raise_unchanged=['AssertionError'],
	ensures=[
		# Top: processing a tree ends with exactly one result, which is returned
		'result == last(old(self.__stacks))[0]', 'self.__stacks == init(old(self.__stacks)) + [init(last(old(self.__stacks)))]', 'len(last(self.__stacks)) == 0'])

SEG_LO = 'len(T0) - (need(node, len(keys(node))) - need(node, j))'
SEG_HI = 'len(T0) - (need(node, len(keys(node))) - need(node, j + 1))'
EVENT_OK = ('implies(is_list(node, keys(node)[j]), {ev}[keys(node)[j]] == T0[' + SEG_LO + ':' + SEG_HI + ']) and '
	'implies(not is_list(node, keys(node)[j]), {ev}[keys(node)[j]] == T0[' + SEG_LO + '])')

contract(PROC, 'Procedure.__make_event', 'C09', types={**T, 'return': 'dict[str, EventVal]', 'event': 'dict[str, EventVal]', 'prop_keys': 'list[str]'},
	rewrites={**STK, 'reversed(node.prop_keys())': 'rev(keys(node))', 'self.__is_prop_list_by(node, prop_key)': 'is_list(node, prop_key)', 'len(getattr(node, prop_key))': 'prop_len(node, prop_key)'},
	stmt_rewrites={
		# popping `counts` results one by one and reversing them is read as taking the last `counts` results in order
		# (and failing with the AssertionError of __stack_pop when fewer are there); cross-checked by the bounded monitor
		'event[prop_key] = list(reversed([self.__stack_pop() for _ in range(counts)]))':
			'assert counts <= len(self.__stack)\nevent[prop_key] = self.__stack[len(self.__stack) - counts:]\nself.__stacks[len(self.__stacks) - 1] = self.__stack[:len(self.__stack) - counts]',
	},
	lets={'T0': 'last(self.__stacks)'},
	requires=['len(self.__stacks) >= 1'],
	modifies=['self.__stacks'],
	raises={'Errors.Logic': 'len(last(self.__stacks)) < need(node, len(keys(node)))'},
	hints_entry=['lemma_need_mono(node, 0, len(keys(node)))'],
	ensures=[
		# Top: the event holds, per declared property, precisely the results computed for the nodes that property yields
		# (a list of them in source order for a list property, the single one otherwise) ...
		'all(keys(node)[j] in result and ' + EVENT_OK.format(ev='result') + ' for j in range(len(keys(node))))',
		# ... and exactly those results are consumed: nothing of an earlier sibling's results is touched
		'last(self.__stacks) == T0[:len(T0) - need(node, len(keys(node)))]', 'init(self.__stacks) == init(old(self.__stacks))', 'len(self.__stacks) == len(old(self.__stacks))',
		'0 <= need(node, len(keys(node)))', 'need(node, len(keys(node))) <= len(T0)',
	],
	loops={0: Loop(
		invariant=[
			'0 <= _i', '_i <= len(keys(node))', '_seq == rev(keys(node))',
			'len(self.__stacks) == len(old(self.__stacks))', 'init(self.__stacks) == init(old(self.__stacks))',
			'need(node, len(keys(node))) - need(node, len(keys(node)) - _i) <= len(T0)',
			'last(self.__stacks) == T0[:len(T0) - (need(node, len(keys(node))) - need(node, len(keys(node)) - _i))]',
			'all(keys(node)[j] in event and ' + EVENT_OK.format(ev='event') + ' for j in range(len(keys(node)) - _i, len(keys(node))))',
		],
		hints_head=['lemma_need_mono(node, len(keys(node)) - _i, len(keys(node)))', 'implies(_i < len(keys(node)), lemma_need_mono(node, len(keys(node)) - _i - 1, len(keys(node)) - _i))'])})


CONSUMED = ['len(self.__stacks) == len(old(self.__stacks))', 'init(self.__stacks) == init(old(self.__stacks))']
ENOUGH = ['0 <= need(node, len(keys(node)))', 'need(node, len(keys(node))) <= len(T0)']

contract(PROC, 'Procedure.__emit', ['C09', 'C07'], types={**T, 'event': 'dict[str, EventVal]'},
	rewrites={**STK, 'self.__emitter.emit(action, node=node, **event)': 'emit_call(self.__emitter, action, node, event)',
		'len(e.args) > 0 and (not isinstance(e.args[0], Node))': 'exc_arg0_not_node(self.__emitter)', 'e.__class__(node)': 'Errors.Error(node)'},
	lets={'T0': 'last(self.__stacks)'},
	requires=['len(self.__stacks) >= 1'],
	modifies=['self.__stacks'],
	# Top (C07): whatever a handler raises leaves as an application error (InvalidSchema, the original Errors.Error, or Fatal)
	raises={'Errors.Error': None},
	ensures=CONSUMED + ENOUGH + ['last(self.__stacks) == T0[:len(T0) - need(node, len(keys(node)))]'])

contract(PROC, 'Procedure.__run_action', 'C09', types={**T, 'return': 'None', 'result': 'Ret'},
	rewrites=STK,
	stmt_rewrites={'self.__put_log_action(node, handler_name, stacks=(before, consumed, len(self.__stack)), result=result)': 'pass'},
	lets={'T0': 'last(self.__stacks)'},
	requires=['len(self.__stacks) >= 1'],
	modifies=['self.__stacks'],
	raises={'Errors.Error': None},
	ensures=CONSUMED + [
		# Top: the node's children results are replaced by exactly one result; results below them (earlier siblings, outer nodes) are untouched
		'len(last(self.__stacks)) == len(T0) - need(node, len(keys(node))) + 1',
		'init(last(self.__stacks)) == T0[:len(T0) - need(node, len(keys(node)))]',
	])

contract(PROC, 'Procedure.__action', 'C09', types={**T, 'return': 'None'},
	lets={'T0': 'last(self.__stacks)'},
	requires=['len(self.__stacks) >= 1'],
	modifies=['self.__stacks'],
	raises={'Errors.Error': None},
	ensures=CONSUMED + ['len(last(self.__stacks)) == len(T0) - need(node, len(keys(node))) + 1', 'init(last(self.__stacks)) == T0[:len(T0) - need(node, len(keys(node)))]'])

contract(PROC, 'Procedure.__exec_impl', 'C09', types={**T, 'root': 'Node', 'flatted': 'list[Node]'},
	rewrites={**STK, 'root.procedural()': 'flat(root)'},
	requires=['len(self.__stacks) >= 1'],
	modifies=['self.__stacks'],
	raises={'Errors.Error': None},
	ensures=CONSUMED,
	loops={0: Loop(invariant=['len(self.__stacks) == len(old(self.__stacks))', 'init(self.__stacks) == init(old(self.__stacks))', '_seq == flat(root) + [root]', '0 <= _i', '_i <= len(_seq)'])})

contract(PROC, 'Procedure.exec', 'C09', types={**T, 'root': 'Node'},
	modifies=['self.__stacks'],
	raises={'Errors.Error': None},
	ensures=[
		# Top: nested processing started from inside a handler does not disturb the outer run (the stack of stacks is restored on return)
		'self.__stacks == old(self.__stacks)',
	])


TRUSTED_BASE = ['abstract Node interface: prop_keys() is a fixed duplicate-free list per class (closed check by evaluation), is-list / length of a property are functions of (node, key), stable during one event',
	'Middleware.emit runs the handler and may raise anything; handlers touch the Procedure only through exec()', 'reading of the pop-and-reverse comprehension as a slice (stmt rewrite, cross-checked by the monitor)']
ASSUMPTIONS = ['the whole-tree statement (processing FLAT(n) ++ [n] leaves exactly R(n)) follows from the per-node contracts by induction over the tree; that induction (T09) is not machine-checked here, the bounded monitor validates it on real trees',
	'Node.procedural (flattening) and the node classes\' property getters are validated by the bounded monitor only']


def closed_prop_keys():
	"""Closed obligation by evaluation: no node class declares the same expandable property twice (justifies the axiom on keys())."""
	import inspect, os, sys
	repo = os.environ.get('PYVC_REPO', '/repo')
	if repo not in sys.path:
		sys.path.insert(0, repo)
	import rogw.tranp.syntax.node.definition as defs
	from rogw.tranp.syntax.node.node import Node
	bad, n = [], 0
	for name, cls in inspect.getmembers(defs, inspect.isclass):
		if issubclass(cls, Node):
			n += 1
			ks = cls.prop_keys()
			if len(ks) != len(set(ks)):
				bad.append((name, ks))
	return n, bad


def extra_checks(tier, seed, active_known):
	from pyvc.driver import Extra
	from twins import procedure_twin
	ncls, bad = closed_prop_keys()
	closed = Extra(name='prop_keys() of every node class is duplicate-free', kind='closed', ok=not bad, cases=ncls, exhaustive=True, detail=f'{ncls} node classes, duplicates: {bad[:3]}')
	if bad:
		closed.violation = {'what': f'node class {bad[0][0]} declares a property twice: {bad[0][1]} (its results would be popped twice)', 'function': 'rogw/tranp/syntax/node/definition', 'inputs': {'class': bad[0][0], 'prop_keys': bad[0][1]}, 'clause': 'distinct prop_keys'}
	visited, classes, fails = procedure_twin.run(tier, seed)
	x = Extra(name='identity-valued Procedure over real modules: event(n)[k] == results(getattr(n, k)), one final result, nested exec', kind='bounded', ok=not fails, cases=visited,
		bound='6 snippets (is-not comparisons, parametrised bases, comprehensions, try/lambda/closures, enums) + fixture_reflections.py, example/json.py, the stub library (thorough: + fixture_py2cpp.py)',
		detail=f'{visited} nodes of {classes} node classes, {len(fails)} mismatches', samples=[{'node': 'file_input.class_def', 'event': {'statements': ["('R', 'file_input.class_def')"]}, 'verdict': 'equal'}])
	x.distinct = classes
	if fails:
		x.violation = {'what': fails[0]['what'], 'function': 'rogw/tranp/semantics/procedure.py:Procedure / rogw/tranp/syntax/node/node.py:Node.procedural', 'inputs': fails[0], 'clause': 'event(n)[k] == results(getattr(n, k))'}
		x.finding_key = 'procedure-monitor'
	progs = REAL_HANDLER_PROGRAMS
	res = _transpile_worker(progs)
	bad = [(src, r) for src, r in zip(progs, res) if not r['ok']]
	y = Extra(name='the real transpiler handlers (which query the symbol tables while the tree is processed) end every run with exactly one result', kind='bounded', ok=not bad, cases=len(progs),
		bound=f'{len(progs)} programs through Py2Cpp: generic base with a typed member read through a subclass, with-statements with one and two items, nested classes, enum, comprehension, closure', detail=f'{len(bad)} failing programs',
		samples=[{'program': progs[0][:80], 'verdict': 'transpiled'}])
	y.distinct = len(progs)
	if bad:
		y.violation = {'what': f'processing a valid program fails: {bad[0][1]["error"][:200]}', 'function': 'rogw/tranp/semantics/procedure.py with the Py2Cpp handlers', 'inputs': {'program': bad[0][0], 'error': bad[0][1]['error']}, 'clause': 'the run ends with exactly one result'}
		y.finding_key = 'real-handlers'
	return [closed, x, y]


REAL_HANDLER_PROGRAMS = [
	"from typing import Generic, TypeVar\n\nT = TypeVar('T')\n\n\nclass Base(Generic[T]):\n\tvalue: T\n\n\tdef __init__(self, value: T) -> None:\n\t\tself.value = value\n\n\nclass Sub(Base[int]):\n\tdef get(self) -> int:\n\t\treturn self.value\n\n\tdef twice(self) -> int:\n\t\treturn self.value * 2\n",
	"def f(path: str) -> None:\n\twith open(path) as a:\n\t\tx = a\n",
	"def g(p: str, q: str) -> None:\n\twith open(p) as a, open(q) as b:\n\t\tx = a\n\t\ty = b\n",
	"class Outer:\n\tclass Inner:\n\t\tn: int\n\n\t\tdef __init__(self, n: int) -> None:\n\t\t\tself.n = n\n\n\tdef make(self) -> int:\n\t\treturn Outer.Inner(1).n\n",
	"from enum import Enum\n\n\nclass E(Enum):\n\tA = 1\n\tB = A + 1\n\n\ndef h(n: int) -> int:\n\tdef inner(k: int) -> int:\n\t\treturn k + n\n\txs = [inner(i) for i in range(n) if i != E.B.value]\n\treturn len(xs)\n",
]


def _transpile_worker(programs):
	import json
	import os
	import shutil
	import subprocess
	from twins.pipeline import PY313, REPO, SITE
	env = dict(os.environ)
	env['PYTHONPATH'] = f'{REPO}:{SITE}'
	env['PYVC_REPO'] = REPO
	p = subprocess.run([PY313, os.path.join(os.path.dirname(os.path.dirname(os.path.abspath(__file__))), 'twins', 'transpile_worker.py'), json.dumps(programs)], env=env, capture_output=True, text=True, timeout=1200)
	shutil.rmtree(os.path.join(REPO, '.cache'), ignore_errors=True)
	for ln in p.stdout.split('\n'):
		if ln.startswith('RESULT '):
			return json.loads(ln[7:])
	raise RuntimeError(f'transpile worker gave no result: rc={p.returncode} {p.stderr[-400:]}')
