"""C13 — Tokenizer agrees with Python and ignores insignificant layout.

Proved per token class (against Python's lexical rules on the supported ASCII subset), the span arithmetic (shared with C16),
and the block structure bookkeeping.  Equality of whole token sequences with CPython's tokenize and the layout metamorphism
are relational / need CPython's tokenizer as an oracle: bounded twin.
"""
from __future__ import annotations
from pyvc.api import contract, lemma, Loop, native
from specs.lexspec import TOKENIZER, TOKEN, QUOTE_PAIRS
import specs.lexspec  # noqa: F401
import contracts.c16  # noqa: F401
from contracts.common_lemmas import lemma_count_pos  # noqa: F401  (Token.SourceMap.make: every token's span addresses exactly its text)

LEVEL = 'proof'
LT = {'self': 'Lexer', 'return': 'tuple[int, Token]'}


def run_parser(name: str, table: str, tconst: str, extra_ensures: list[str], hints_exit: list[str] | None = None) -> None:
	contract(TOKENIZER, f'Lexer.{name}', 'C13', types=LT,
		rewrites={f'self._definition.{table}': tconst.upper() if False else {'white_space': 'WS', 'identifier': 'IDENT', 'number': 'NUMBER'}[table]},
		requires=['0 <= begin', 'begin < len(source)'],
		raises={}, hints_exit=hints_exit or [],
		ensures=[
			# Top: the token is the maximal run of characters of its class starting at `begin` (Python's longest-match rule for this class)
			'begin <= result[0]', 'result[0] <= len(source)',
			f'all(source[j] in {tconst} for j in range(begin, result[0]))',
			f'result[0] == len(source) or source[result[0]] not in {tconst}',
			# ... its text is exactly that slice of the source, and its span is the span of that slice
			'result[1]._string == source[begin:result[0]]',
			"result[1].source_map.begin_line == source.count('\\n', 0, begin)", "result[1].source_map.end_line == source.count('\\n', 0, result[0])",
			"result[1].source_map.begin_column == begin - (source.rfind('\\n', 0, begin) + 1)", "result[1].source_map.end_column == result[0] - (source.rfind('\\n', 0, result[0]) + 1)",
		] + extra_ensures,
		loops={0: Loop(invariant=['begin <= end', 'end <= len(source)', f'all(source[j] in {tconst} for j in range(begin, end))'], decreases='len(source) - end')})


run_parser('parse_identifier', 'identifier', 'IDENT', ['result[1]._type == T_Name'])
run_parser('parse_number', 'number', 'NUMBER', ["result[1]._type == (T_Decimal if '.' in source[begin:result[0]] else T_Digit)"], hints_exit=["lemma_count_pos(source[begin:result[0]], '.')"])


# ---- strings ------------------------------------------------------------------------------------------------
SINGLE = [(o, c, tuple(o2 for (o2, _c2) in QUOTE_PAIRS[:i])) for i, (o, c) in enumerate(QUOTE_PAIRS) if len(c) == 1]


@lemma('C13', requires=['lo <= m', 'm <= i', 'i <= len(source)', "m == lo or source[m - 1] != '\\\\'"], ensures=['bs_run(source, lo, i) == bs_run(source, m, i)'], decreases='i - m')
def lemma_bs_run_cut(source: str, lo: int, m: int, i: int):
	"""A run of backslashes cannot extend below a position that holds another character."""
	if i > m:
		lemma_bs_run_cut(source, lo, m, i - 1)


@lemma('C13', requires=['len(c) == 1', '0 <= k', 'k <= len(s)', 's.find(c, k) >= 0'],
	ensures=['all(s[j] != c for j in range(k, s.find(c, k)))', 's[s.find(c, k)] == c', 'k <= s.find(c, k)', 's.find(c, k) < len(s)'])
def lemma_find_first(s: str, c: str, k: int):
	"""find returns the first position at or after k that holds the character."""
	pass


contract(TOKENIZER, 'Lexer.parse_quote', 'C13', types={**LT, 'found_pair': 'list[str]', 'pair': 'str'},
	instantiate={'qp_open,qp_close,qp_earlier': SINGLE},
	rewrites={"[pair for pair in self._definition.quote if source.startswith(pair['open'], begin)]": '[qp_open]', "pair['open']": 'qp_open', "pair['close']": 'qp_close'},
	lets={'lo': 'begin + len(qp_open)'},
	requires=['0 <= begin', 'source.startswith(qp_open, begin)',
		# the literal is terminated (the supported lexical subset): some quote after the opener closes it by Python's rule
		'any(closes(source, qp_close, begin + len(qp_open), j) for j in range(begin + len(qp_open), len(source)))'],
	raises={},
	ensures=[
		# Top: the literal ends at the first quote that is preceded by an even number of backslashes (Python's rule), and the token is that slice
		'closes(source, qp_close, lo, result[0] - 1)', 'lo < result[0]',
		'all(not closes(source, qp_close, lo, j) for j in range(lo, result[0] - 1))',
		'result[1]._string == source[begin:result[0]]',
		"result[1]._type == (T_Regexp if source[begin] == '/' else T_String)",
	],
	loops={
		0: Loop(invariant=['lo <= end', 'end <= len(source)', "end == lo or source[end - 1] == qp_close", 'all(not closes(source, qp_close, lo, j) for j in range(lo, end))'],
			decreases='len(source) - end',
			hints_end=['lemma_find_first(source, qp_close, prev(end))',
				'cut(all(not closes(source, qp_close, lo, j) for j in range(prev(end), index)))',
				'cut(implies(escapes % 2 != 0, not closes(source, qp_close, lo, index)))',
				'cut(all(not closes(source, qp_close, lo, j) for j in range(lo, index)))']),
		1: Loop(invariant=['0 <= escapes', 'end <= index - escapes', 'index < len(source)', 'end <= index',
			'bs_run(source, end, index) == escapes + bs_run(source, end, index - escapes)'], decreases='index - escapes - end + 1',
			hints_exit=['lemma_bs_run_cut(source, lo, end, index)']),
	})
