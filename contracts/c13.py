"""C13 — Tokenizer agrees with Python and ignores insignificant layout.

Proved per token class (against Python's lexical rules on the supported ASCII subset), the span arithmetic (shared with C16),
and the block structure bookkeeping.  Equality of whole token sequences with CPython's tokenize and the layout metamorphism
are relational / need CPython's tokenizer as an oracle: bounded twin.
"""
from __future__ import annotations
from pyvc.api import contract, lemma, Loop, native
from specs.lexspec import TOKENIZER, TOKEN, QUOTE_PAIRS
import specs.lexspec  # noqa: F401
import contracts.c16  # noqa: F401
from contracts.common_lemmas import lemma_count_pos  # noqa: F401  (Token.SourceMap.make: every token's span addresses exactly its text)

LEVEL = 'proof'
LT = {'self': 'Lexer', 'return': 'tuple[int, Token]'}


def run_parser(name: str, table: str, tconst: str, extra_ensures: list[str], hints_exit: list[str] | None = None) -> None:
	contract(TOKENIZER, f'Lexer.{name}', 'C13', types=LT,
		rewrites={f'self._definition.{table}': tconst.upper() if False else {'white_space': 'WS', 'identifier': 'IDENT', 'number': 'NUMBER'}[table]},
		requires=['0 <= begin', 'begin < len(source)'],
		raises={}, hints_exit=hints_exit or [],
		ensures=[
			# Top: the token is the maximal run of characters of its class starting at `begin` (Python's longest-match rule for this class)
			'begin <= result[0]', 'result[0] <= len(source)',
			f'all(source[j] in {tconst} for j in range(begin, result[0]))',
			f'result[0] == len(source) or source[result[0]] not in {tconst}',
			# ... its text is exactly that slice of the source, and its span is the span of that slice
			'result[1]._string == source[begin:result[0]]',
			"result[1].source_map.begin_line == source.count('\\n', 0, begin)", "result[1].source_map.end_line == source.count('\\n', 0, result[0])",
			"result[1].source_map.begin_column == begin - (source.rfind('\\n', 0, begin) + 1)", "result[1].source_map.end_column == result[0] - (source.rfind('\\n', 0, result[0]) + 1)",
		] + extra_ensures,
		loops={0: Loop(invariant=['begin <= end', 'end <= len(source)', f'all(source[j] in {tconst} for j in range(begin, end))'], decreases='len(source) - end')})


run_parser('parse_identifier', 'identifier', 'IDENT', ['result[1]._type == T_Name'])
run_parser('parse_number', 'number', 'NUMBER', ["result[1]._type == (T_Decimal if '.' in source[begin:result[0]] else T_Digit)"], hints_exit=["lemma_count_pos(source[begin:result[0]], '.')"])


# ---- strings ------------------------------------------------------------------------------------------------
SINGLE = [(o, c, tuple(o2 for (o2, _c2) in QUOTE_PAIRS[:i])) for i, (o, c) in enumerate(QUOTE_PAIRS) if len(c) == 1]


@lemma('C13', requires=['lo <= m', 'm <= i', 'i <= len(source)', "m == lo or source[m - 1] != '\\\\'"], ensures=['bs_run(source, lo, i) == bs_run(source, m, i)'], decreases='i - m')
def lemma_bs_run_cut(source: str, lo: int, m: int, i: int):
	"""A run of backslashes cannot extend below a position that holds another character."""
	if i > m:
		lemma_bs_run_cut(source, lo, m, i - 1)


@lemma('C13', requires=['len(c) == 1', '0 <= k', 'k <= len(s)', 's.find(c, k) >= 0'],
	ensures=['all(s[j] != c for j in range(k, s.find(c, k)))', 's[s.find(c, k)] == c', 'k <= s.find(c, k)', 's.find(c, k) < len(s)'])
def lemma_find_first(s: str, c: str, k: int):
	"""find returns the first position at or after k that holds the character."""
	pass


@lemma('C13', requires=['len(c) == 1', '0 <= k', 'k <= len(s)', 's.find(c, k) == -1'], ensures=['all(s[j] != c for j in range(k, len(s)))'])
def lemma_find_none(s: str, c: str, k: int):
	"""find returns -1 only when no position at or after k holds the character."""
	pass


contract(TOKENIZER, 'Lexer.parse_comment', 'C13', types={**LT, 'found_pair': 'list[str]', 'pair': 'str'},
	rewrites={"[pair for pair in self._definition.comment if source.startswith(pair['open'], begin)]": "['#']", "pair['open']": "'#'", "pair['close']": "'\\n'"},
	requires=['0 <= begin', 'begin < len(source)', "source.startswith('#', begin)"],
	raises={},
	ensures=[
		# Top: a comment runs from its '#' to the end of its own line (the line break is not part of it), or to the end of the text; an empty body is a comment too
		"implies(source.find('\\n', begin + 1) != -1, result[0] == source.find('\\n', begin + 1))",
		"implies(source.find('\\n', begin + 1) == -1, result[0] == len(source))",
		'begin < result[0]', "'\\n' not in source[begin:result[0]]",
		'result[1]._string == source[begin:result[0]]'])

contract(TOKENIZER, 'Lexer.parse_quote', 'C13', types={**LT, 'found_pair': 'list[str]', 'pair': 'str'},
	instantiate={'qp_open,qp_close,qp_earlier': SINGLE},
	rewrites={"[pair for pair in self._definition.quote if source.startswith(pair['open'], begin)]": '[qp_open]', "pair['open']": 'qp_open', "pair['close']": 'qp_close'},
	lets={'lo': 'begin + len(qp_open)'},
	requires=['0 <= begin', 'begin + len(qp_open) <= len(source)', 'all(source[begin + k] == qp_open[k] for k in range(len(qp_open)))',
		# the literal is terminated (the supported lexical subset): some quote after the opener closes it by Python's rule
		'any(closes(source, qp_close, begin + len(qp_open), j) for j in range(begin + len(qp_open), len(source)))'],
	raises={},
	ensures=[
		# Top: the literal ends at the first quote that is preceded by an even number of backslashes (Python's rule), and the token is that slice
		'closes(source, qp_close, lo, result[0] - 1)', 'lo < result[0]',
		'all(not closes(source, qp_close, lo, j) for j in range(lo, result[0] - 1))',
		'result[1]._string == source[begin:result[0]]',
		"result[1]._type == (T_Regexp if source[begin] == '/' else T_String)",
	],
	hints_exit=['implies(end <= len(source) and source.find(qp_close, end) == -1, lemma_find_none(source, qp_close, end))',
		'cut(implies(end <= len(source) and source.find(qp_close, end) == -1, all(not closes(source, qp_close, lo, j) for j in range(end, len(source)))))'],
	loops={
		0: Loop(invariant=['lo <= end', 'end <= len(source)', "end == lo or source[end - 1] == qp_close", 'all(not closes(source, qp_close, lo, j) for j in range(lo, end))'],
			decreases='len(source) - end',
			hints_end=['lemma_find_first(source, qp_close, prev(end))',
				'cut(all(not closes(source, qp_close, lo, j) for j in range(prev(end), index)))',
				'cut(implies(escapes % 2 != 0, not closes(source, qp_close, lo, index)))',
				'cut(all(not closes(source, qp_close, lo, j) for j in range(lo, index)))'],
			hints_break=['implies(index >= 0, lemma_find_first(source, qp_close, prev(end)))',
				'cut(implies(index >= 0, all(not closes(source, qp_close, lo, j) for j in range(prev(end), index))))',
				'cut(implies(index >= 0, all(not closes(source, qp_close, lo, j) for j in range(lo, index))))']),
		1: Loop(invariant=['0 <= escapes', 'end <= index - escapes', 'index < len(source)', 'end <= index',
			'bs_run(source, end, index) == escapes + bs_run(source, end, index - escapes)'], decreases='index - escapes - end + 1',
			hints_exit=['lemma_bs_run_cut(source, lo, end, index)']),
	})

# ---- block structure ---------------------------------------------------------------------------------------
from contracts.common_lemmas import lemma_split_join  # noqa: E402,F401
CT = {'self': 'Tokenizer', 'context': 'Tokenizer.Context', 'tokens': 'list[Token]', 'return': 'tuple[int, list[Token]]', 'dedents': 'list[Token]'}

contract(TOKENIZER, 'Tokenizer.Context.to_nest', 'C13', types={'self': 'Tokenizer.Context'},
	modifies=['self._indent_spaces'], raises={'ZeroDivisionError': 'spaces != 0 and self._indent_spaces == 0'},
	ensures=['result == nest_of(old(self), spaces)',
		# the unit is fixed by the first non-zero width and never changes afterwards
		'self._indent_spaces == (spaces if old(self._indent_spaces) == -1 and spaces != 0 else old(self._indent_spaces))'])

contract(TOKENIZER, 'Tokenizer.handle_symbol', 'C13', types=CT,
	requires=['0 <= begin', 'begin < len(tokens)'],
	modifies=['context'], raises={},
	ensures=[
		# Top: bracket depth bookkeeping; the symbol itself is passed through
		'result[0] == begin + 1', 'len(result[1]) == 1 and result[1][0] == tokens[begin]',
		'context.enclosure == old(context.enclosure) + (1 if tokens[begin]._type in [T_ParenL, T_BraceL, T_BracketL] else (-1 if tokens[begin]._type in [T_ParenR, T_BraceR, T_BracketR] else 0))',
		'context.nest == old(context.nest)', 'context._indent_spaces == old(context._indent_spaces)',
	])


contract(TOKENIZER, 'Tokenizer.handle_white_space', 'C13', types=CT,
	requires=['0 <= begin', 'begin < len(tokens)', 'context.nest >= 0', 'context._indent_spaces != 0',
		'tokens[begin]._type in [T_WhiteSpace, T_LineBreak, T_EOF]', 'implies(tokens[begin]._type == T_EOF, len(tokens[begin]._string) > 0)',
		# consistent layout (the statement's "any consistent space width"): indentation deepens by one level at a time
		'implies(tokens[begin]._type == T_LineBreak and context.enclosure <= 0, nest_of(context, indent_of(tokens[begin])) <= context.nest + 1 and nest_of(context, indent_of(tokens[begin])) >= 0)'],
	hints_entry=["lemma_split_join(tokens[begin]._string, '\\n')"],
	modifies=['context'], raises={},
	ensures=[
		'begin < result[0]',
		# Top: inside brackets, and for plain blanks, no statement-end / block markers are emitted and the block context is untouched
		'implies(old(context.enclosure) > 0 or tokens[begin]._type == T_WhiteSpace, len(result[1]) == 0 and context == old(context))',
		# Top: indents and dedents balance -- each call emits exactly (new depth - old depth) block markers
		'implies(old(context.enclosure) <= 0 and tokens[begin]._type != T_WhiteSpace, len(result[1]) >= 1 and result[1][0]._type == T_NewLine)',
		'implies(old(context.enclosure) <= 0 and tokens[begin]._type != T_WhiteSpace and context.nest > old(context.nest), context.nest == old(context.nest) + 1 and len(result[1]) == 2 and result[1][1]._type == T_Indent)',
		'implies(old(context.enclosure) <= 0 and tokens[begin]._type != T_WhiteSpace and context.nest <= old(context.nest), len(result[1]) == 1 + old(context.nest) - context.nest)',
		'implies(tokens[begin]._type == T_EOF and old(context.enclosure) <= 0, context.nest == 0)',
		'context.enclosure == old(context.enclosure)',
	])

# ---- closed obligations and the bounded twin ------------------------------------------------------------------
TRUSTED_BASE = ["Python's lexical rules for names, decimal numbers and single-quoted string literals as written in specs/lexspec.py and the clauses above (a quote closes unless preceded by an odd number of backslashes)",
	'character tables are read from the real TokenDefinition constructor on every run', 'Enum members are modelled by their integer values']
ASSUMPTIONS = ['triple-quoted literals, the two-character backslash-quote openers, comments, post_filter (regular expressions) and the dispatch through handler tables (_rebuild, parse_impl) are covered by the bounded twin only',
	'whole-sequence equality with CPython\'s tokenize and the layout metamorphism are relational: bounded twin', 'consistent layout (indentation deepens one level at a time) is a precondition of the block-structure clauses']


def closed_operator_table():
	"""Closed obligation by evaluation: on every 1-3 character operator string of CPython's table that uses only tranp's symbol characters, parse_symbol takes
	the same longest match as CPython -- except the operators the shipped grammar does not have (listed) and the documented unary-minus marking."""
	import os, sys, token as pytok
	repo = os.environ.get('PYVC_REPO', '/repo')
	if repo not in sys.path:
		sys.path.insert(0, repo)
	from rogw.tranp.implements.syntax.tranp.tokenizer import Lexer
	from rogw.tranp.implements.syntax.tranp.token import TokenDefinition
	d = TokenDefinition()
	lx = Lexer(d)
	not_in_grammar = {'//', '//=', '**=', '<<=', '>>=', '@='}
	bad, n = [], 0
	for op in sorted(pytok.EXACT_TOKEN_TYPES):
		if not all(ch in d.symbol for ch in op) or op in not_in_grammar:
			continue
		n += 1
		end, tok = lx.parse_symbol(op + ' x', 0)
		text = '-' if tok.string == '\\\\OP_UNARY_MINUS'.replace('\\\\\\\\', '\\\\') else tok.string
		if (end, text) != (len(op), op):
			bad.append((op, tok.string))
	return n, bad, sorted(not_in_grammar)


def extra_checks(tier, seed, active_known):
	from pyvc.driver import Extra
	from twins import lex_twin
	n0, bad, skipped = closed_operator_table()
	closed = Extra(name='parse_symbol takes CPython\'s longest operator match on every operator of token.EXACT_TOKEN_TYPES over tranp\'s symbol characters', kind='closed', ok=not bad, cases=n0, exhaustive=True,
		detail=f'{n0} operators; not in the shipped grammar and therefore outside the supported subset: {skipped}; mismatches: {bad[:4]}')
	if bad:
		closed.violation = {'what': f'operator {bad[0][0]!r} is lexed as {bad[0][1]!r}', 'function': 'rogw/tranp/implements/syntax/tranp/tokenizer.py:Lexer.parse_symbol', 'inputs': {'operator': bad[0][0]}, 'clause': 'longest operator match'}
	n, distinct, fails = lex_twin.run(tier, seed)
	x = Extra(name='token sequence == CPython tokenize; raw tokens partition the source and spans address their text; INDENT/DEDENT balance; layout metamorphism', kind='bounded', ok=not fails, cases=n,
		bound='150 (quick) / 1500 (thorough) generated sources: names, decimal ints/floats, quoted/raw/f/triple-quoted strings with escapes, single and combined operators, brackets spanning lines (also before the first block), block nesting <= 3; 7 layout rewrites each',
		detail=f'{distinct} distinct sources, {len(fails)} failures', samples=[{'source': 'a = f(a,\\n       b)\\nif x:\\n\\ty = "s\\\\\\\\"\\n', 'verdict': 'equal to CPython, metamorphic'}])
	x.distinct = distinct
	if fails:
		x.violation = {'what': fails[0]['what'], 'function': 'rogw/tranp/implements/syntax/tranp/tokenizer.py', 'inputs': fails[0], 'clause': 'tokens(s) == cpython_tokens(s) and tokens(w(s)) == tokens(s)'}
		x.finding_key = 'lex-twin'
	return [closed, x]
