"""C18 — Fragment splitting helpers respect bracket and quote nesting."""
import itertools
from pyvc.api import contract, lemma, Loop
import specs.brackets  # noqa: F401

LEVEL = 'proof'
BLOCK = 'rogw/tranp/view/helper/block.py'
TOKS12 = '[](){}<>""\'\''
TOKS10 = ['(){}<>""\'\'', '[]{}<>""\'\'', '[]()<>""\'\'', '[](){}""\'\'']

contract(BLOCK, 'BlockParser._skip_other_block', 'C18',
	instantiate={'other_tokens': [TOKS12] + TOKS10},
	requires=['0 <= begin', 'begin < len(text)'],
	ensures=[
		'begin < result',
		'result <= len(text)',
		'result == len(text) or len(code_stack(text, other_tokens, begin, result)) == 0',
		'all(len(code_stack(text, other_tokens, begin, j)) > 0 for j in range(begin + 1, result))',
	],
	loops={0: Loop(
		invariant=[
			'begin <= index', 'index <= len(text)',
			'other_closes == code_stack(text, other_tokens, begin, index)',
			'implies(index == begin, len(other_closes) == 0)',
			'implies(index > begin, len(other_closes) > 0)',
			'all(len(code_stack(text, other_tokens, begin, j)) > 0 for j in range(begin + 1, index))',
		],
		decreases='len(text) - index')},
)



@lemma('C18',
	requires=['0 <= p', 'p < k', 'k <= len(text)', 'len(b0) == 1', 'len(b1) == 1', 'b0 != b1', 'text[p] == b0', 'depth(text, b0, b1, p) == 0',
		'all(depth(text, b0, b1, j) >= 1 for j in range(p + 1, k + 1))'],
	ensures=['open_begin(text, b0, b1, k) == p + 1'],
	decreases='k - p')
def lemma_open_begin(text: str, b0: str, b1: str, p: int, k: int):
	"""Inside a group opened at p (depth stays >= 1) no later opener is met at depth 0: the open group still begins at p + 1."""
	if k > p + 1:
		lemma_open_begin(text, b0, b1, p, k - 1)


contract(BLOCK, 'BlockParser.break_last_block', 'C18',
	instantiate={'brackets': ['()', '[]', '<>', '{}']},
	ghost_params={'p': 'int'},
	raises={'IndexError': 'lg_end(text, brackets[0], brackets[1], len(text)) < 0'},
	ensures=[
		# code-derived: prefix and inside of the last complete top-level group
		'result[0] == text[0:lg_begin(text, brackets[0], brackets[1], len(text)) - 1]',
		'result[1] == text[lg_begin(text, brackets[0], brackets[1], len(text)):lg_end(text, brackets[0], brackets[1], len(text))]',
		# Top (from the statement): text == P + b0 + G + b1 with P balanced (depth 0 at p) and G balanced inside the group  ==>  (P, G)
		'implies(0 <= p and p + 2 <= len(text) and text[p] == brackets[0] and text[len(text) - 1] == brackets[1] and depth(text, brackets[0], brackets[1], p) == 0 '
		'and all(depth(text, brackets[0], brackets[1], j) >= 1 for j in range(p + 1, len(text))) and depth(text, brackets[0], brackets[1], len(text) - 1) == 1, '
		'result[0] == text[:p] and result[1] == text[p + 1:len(text) - 1])',
	],
	top=['implies(0 <= p'],
	hints_exit=[
		'implies(0 <= p and p + 2 <= len(text) and text[p] == brackets[0] and text[len(text) - 1] == brackets[1] and depth(text, brackets[0], brackets[1], p) == 0 '
		'and all(depth(text, brackets[0], brackets[1], j) >= 1 for j in range(p + 1, len(text))) and depth(text, brackets[0], brackets[1], len(text) - 1) == 1, '
		'lemma_open_begin(text, brackets[0], brackets[1], p, len(text) - 1))'],
	loops={0: Loop(
		invariant=[
			'0 <= index', 'index <= len(text)',
			'stack >= 0', 'stack == depth(text, brackets[0], brackets[1], index)',
			'implies(stack >= 1, begin == open_begin(text, brackets[0], brackets[1], index))',
			'(len(ranges) == 0) == (lg_end(text, brackets[0], brackets[1], index) < 0)',
			'implies(len(ranges) > 0, last(ranges)[0] == lg_begin(text, brackets[0], brackets[1], index) and last(ranges)[1] == lg_end(text, brackets[0], brackets[1], index))',
		],
		decreases='len(text) - index')},
)



DELIMS = [',', '=', ' ', ':']


@lemma('C18',
	requires=['0 <= lo', 'lo <= hi', 'hi <= len(text)', 'len(code_stack(text, toks, 0, lo)) == 0'],
	ensures=['code_stack(text, toks, 0, hi) == code_stack(text, toks, lo, hi)'],
	decreases='hi - lo')
def lemma_stack_restart(text: str, toks: str, lo: int, hi: int):
	"""Scanning from a point where the stack is empty is the same as scanning from the start."""
	if hi > lo:
		lemma_stack_restart(text, toks, lo, hi - 1)


@lemma('C18',
	requires=['0 <= i', 'i < r', 'r <= len(text)', 'len(code_stack(text, toks, 0, i)) == 0', 'not is_cut(text, d, toks, i)',
		'all(len(code_stack(text, toks, i, j)) > 0 for j in range(i + 1, r))'],
	ensures=['blocks_upto(text, d, toks, r) == blocks_upto(text, d, toks, i)', 'seg_begin(text, d, toks, r) == seg_begin(text, d, toks, i)'],
	decreases='r - i')
def lemma_no_cuts(text: str, d: str, toks: str, i: int, r: int):
	"""A skipped block [i, r) (stack empty at i, non-empty strictly inside) contains no cut: no block is added, the segment start stays."""
	if r > i + 1:
		lemma_no_cuts(text, d, toks, i, r - 1)
		lemma_stack_restart(text, toks, i, r - 1)


@lemma('C18',
	requires=['0 <= a', 'a <= b', 'b < len(text)'],
	ensures=['text[:a] + text[a:b] + text[b:b + 1] == text[:b + 1]'])
def lemma_slice3(text: str, a: int, b: int):
	"""Adjacent slices concatenate (pure string fact; cvc5 discharges it)."""
	pass


@lemma('C18',
	requires=['0 <= n', 'n <= len(text)', 'len(d) == 1'],
	ensures=['0 <= seg_begin(text, d, toks, n)', 'seg_begin(text, d, toks, n) <= n', 'raw_concat(text, d, toks, n) == text[:seg_begin(text, d, toks, n)]'],
	decreases='n')
def lemma_rejoin(text: str, d: str, toks: str, n: int):
	"""T1: the raw segments, each followed by the delimiter, concatenate to the text up to the current segment start;
	with n == len(text):  raw_concat + text[seg_begin:] == text  (the pieces rejoined with the delimiter give back the fragment)."""
	if n > 0:
		lemma_rejoin(text, d, toks, n - 1)
		if is_cut(text, d, toks, n - 1):
			lemma_slice3(text, seg_begin(text, d, toks, n - 1), n - 1)


contract(BLOCK, 'BlockParser.break_separator', 'C18',
	instantiate={'delimiter': DELIMS},
	consts={'TOKS12': TOKS12, 'OPEN': '[({<"\''},
	ensures=[
		# code == spec: exactly the cuts at delimiters of code-level depth 0, segments stripped of blanks, empty last segment omitted
		'result == blocks_upto(text, delimiter, TOKS12, len(text)) + ([text[seg_begin(text, delimiter, TOKS12, len(text)):].strip(" ")] if seg_begin(text, delimiter, TOKS12, len(text)) < len(text) else [])',
	],
	raises={},  # T3: no exception for any text
	loops={0: Loop(
		invariant=[
			'0 <= index', 'index <= len(text)',
			'index == len(text) or len(code_stack(text, TOKS12, 0, index)) == 0',
			'blocks == blocks_upto(text, delimiter, TOKS12, index)',
			'begin == seg_begin(text, delimiter, TOKS12, index)',
			'begin <= index',
		],
		decreases='len(text) - index',
		hints_end=[
			'lemma_stack_restart(text, TOKS12, old(index), index)',
			'implies(text[old(index)] in OPEN, lemma_no_cuts(text, delimiter, TOKS12, old(index), index))',
		])},
)

ALPHA = 'a,()[]<>{}"\' :='


def _texts(rnd, tier):
	n = 6 if tier == 'quick' else 8
	while True:
		k = rnd.randint(0, n)
		yield ''.join(rnd.choice(ALPHA) for _ in range(k))


def gen_skip(rnd, tier):
	for t in _texts(rnd, tier):
		if t:
			yield {'text': t, 'other_tokens': rnd.choice([TOKS12] + TOKS10), 'begin': rnd.randrange(len(t))}


def gen_last_block(rnd, tier):
	for t in _texts(rnd, tier):
		br = rnd.choice(['()', '[]', '<>', '{}'])
		yield {'text': t, 'brackets': br, 'p': rnd.randint(-1, len(t))}
		# shaped inputs: P + b0 + G + b1
		g = ''.join(rnd.choice('a,' + br) for _ in range(rnd.randint(0, 4)))
		t2 = t + br[0] + g + br[1]
		yield {'text': t2, 'brackets': br, 'p': len(t)}


def gen_break_sep(rnd, tier):
	for t in _texts(rnd, tier):
		yield {'text': t, 'delimiter': rnd.choice(DELIMS)}
		yield {'text': t + rnd.choice('([{<') + t[::-1] + rnd.choice(')]}>') + t, 'delimiter': rnd.choice(DELIMS)}


TWINS = {'BlockParser._skip_other_block': gen_skip, 'BlockParser.break_last_block': gen_last_block, 'BlockParser.break_separator': gen_break_sep}
