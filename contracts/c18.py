"""C18 — Fragment splitting helpers respect bracket and quote nesting."""
import itertools
from pyvc.api import contract, lemma, record, native, Loop
import specs.brackets  # noqa: F401
from contracts.common_lemmas import lemma_count_pos, lemma_split_join  # noqa: F401

LEVEL = 'proof'
BLOCK = 'rogw/tranp/view/helper/block.py'
TOKS12 = '[](){}<>""\'\''
TOKS10 = ['(){}<>""\'\'', '[]{}<>""\'\'', '[]()<>""\'\'', '[](){}""\'\'']

contract(BLOCK, 'BlockParser._skip_other_block', 'C18',
	instantiate={'other_tokens': [TOKS12] + TOKS10},
	requires=['0 <= begin', 'begin < len(text)'],
	ensures=[
		'begin < result',
		'result <= len(text)',
		'result == len(text) or len(code_stack(text, other_tokens, begin, result)) == 0',
		'all(len(code_stack(text, other_tokens, begin, j)) > 0 for j in range(begin + 1, result))',
	],
	loops={0: Loop(
		invariant=[
			'begin <= index', 'index <= len(text)',
			'other_closes == code_stack(text, other_tokens, begin, index)',
			'implies(index == begin, len(other_closes) == 0)',
			'implies(index > begin, len(other_closes) > 0)',
			'all(len(code_stack(text, other_tokens, begin, j)) > 0 for j in range(begin + 1, index))',
		],
		decreases='len(text) - index')},
)



contract(BLOCK, 'BlockParser._analyze_entry', 'C18', types={'return': 'tuple[str, int, int]'}, replay='_analyze_call',
	instantiate={'brackets': ['[]', '()', '{}', '<>']},
	requires=['0 <= begin', 'begin < len(text)', 'len(delimiter) <= 1'],
	raises={},
	ensures=[
		'result[0] == "block" or result[0] == "element" or result[0] == "end"',
		# a block entry: its name starts at result[1] and its opening bracket stands at result[2]
		'implies(result[0] == "block", begin <= result[1] and result[1] <= result[2] and result[2] < len(text) and text[result[2]] == brackets[0])',
		# an element entry ends at the next delimiter or bracket of the block, strictly after the start (the scan makes progress)
		'implies(result[0] == "element", begin <= result[1] and result[1] <= result[2] and begin < result[2] and result[2] < len(text) and text[result[2]] in brackets + delimiter)',
		'implies(result[0] == "end", result[2] == -1 and begin <= result[1] and result[1] <= len(text))'],
	loops={0: Loop(invariant=['begin <= index', 'index <= len(text)', 'begin <= entry_begin', 'entry_begin <= index', 'entry_begin <= len(text)',
		'implies(index == begin, text[begin] != brackets[0] and text[begin] != brackets[1] and text[begin] not in delimiter)'], decreases='len(text) - index')},
)


@lemma('C18',
	requires=['0 <= p', 'p < k', 'k <= len(text)', 'len(b0) == 1', 'len(b1) == 1', 'b0 != b1', 'text[p] == b0', 'depth(text, b0, b1, p) == 0',
		'all(depth(text, b0, b1, j) >= 1 for j in range(p + 1, k + 1))'],
	ensures=['open_begin(text, b0, b1, k) == p + 1'],
	decreases='k - p')
def lemma_open_begin(text: str, b0: str, b1: str, p: int, k: int):
	"""Inside a group opened at p (depth stays >= 1) no later opener is met at depth 0: the open group still begins at p + 1."""
	if k > p + 1:
		lemma_open_begin(text, b0, b1, p, k - 1)


contract(BLOCK, 'BlockParser.break_last_block', 'C18',
	instantiate={'brackets': ['()', '[]', '<>', '{}']},
	ghost_params={'p': 'int'},
	raises={'IndexError': 'lg_end(text, brackets[0], brackets[1], len(text)) < 0'},
	ensures=[
		# code-derived: prefix and inside of the last complete top-level group
		'result[0] == text[0:lg_begin(text, brackets[0], brackets[1], len(text)) - 1]',
		'result[1] == text[lg_begin(text, brackets[0], brackets[1], len(text)):lg_end(text, brackets[0], brackets[1], len(text))]',
		# Top (from the statement): text == P + b0 + G + b1 with P balanced (depth 0 at p) and G balanced inside the group  ==>  (P, G)
		'implies(0 <= p and p + 2 <= len(text) and text[p] == brackets[0] and text[len(text) - 1] == brackets[1] and depth(text, brackets[0], brackets[1], p) == 0 '
		'and all(depth(text, brackets[0], brackets[1], j) >= 1 for j in range(p + 1, len(text))) and depth(text, brackets[0], brackets[1], len(text) - 1) == 1, '
		'result[0] == text[:p] and result[1] == text[p + 1:len(text) - 1])',
	],
	top=['implies(0 <= p'],
	hints_exit=[
		'implies(0 <= p and p + 2 <= len(text) and text[p] == brackets[0] and text[len(text) - 1] == brackets[1] and depth(text, brackets[0], brackets[1], p) == 0 '
		'and all(depth(text, brackets[0], brackets[1], j) >= 1 for j in range(p + 1, len(text))) and depth(text, brackets[0], brackets[1], len(text) - 1) == 1, '
		'lemma_open_begin(text, brackets[0], brackets[1], p, len(text) - 1))'],
	loops={0: Loop(
		invariant=[
			'0 <= index', 'index <= len(text)',
			'stack >= 0', 'stack == depth(text, brackets[0], brackets[1], index)',
			'implies(stack >= 1, begin == open_begin(text, brackets[0], brackets[1], index))',
			'(len(ranges) == 0) == (lg_end(text, brackets[0], brackets[1], index) < 0)',
			'implies(len(ranges) > 0, last(ranges)[0] == lg_begin(text, brackets[0], brackets[1], index) and last(ranges)[1] == lg_end(text, brackets[0], brackets[1], index))',
		],
		decreases='len(text) - index')},
)



DELIMS = [',', '=', ' ', ':']


@lemma('C18',
	requires=['0 <= lo', 'lo <= hi', 'hi <= len(text)', 'len(code_stack(text, toks, 0, lo)) == 0'],
	ensures=['code_stack(text, toks, 0, hi) == code_stack(text, toks, lo, hi)'],
	decreases='hi - lo')
def lemma_stack_restart(text: str, toks: str, lo: int, hi: int):
	"""Scanning from a point where the stack is empty is the same as scanning from the start."""
	if hi > lo:
		lemma_stack_restart(text, toks, lo, hi - 1)


@lemma('C18',
	requires=['0 <= i', 'i < r', 'r <= len(text)', 'len(code_stack(text, toks, 0, i)) == 0', 'not is_cut(text, d, toks, i)',
		'all(len(code_stack(text, toks, i, j)) > 0 for j in range(i + 1, r))'],
	ensures=['blocks_upto(text, d, toks, r) == blocks_upto(text, d, toks, i)', 'seg_begin(text, d, toks, r) == seg_begin(text, d, toks, i)'],
	decreases='r - i')
def lemma_no_cuts(text: str, d: str, toks: str, i: int, r: int):
	"""A skipped block [i, r) (stack empty at i, non-empty strictly inside) contains no cut: no block is added, the segment start stays."""
	if r > i + 1:
		lemma_no_cuts(text, d, toks, i, r - 1)
		lemma_stack_restart(text, toks, i, r - 1)


@lemma('C18',
	requires=['0 <= a', 'a <= b', 'b < len(text)'],
	ensures=['text[:a] + text[a:b] + text[b:b + 1] == text[:b + 1]'])
def lemma_slice3(text: str, a: int, b: int):
	"""Adjacent slices concatenate (pure string fact; cvc5 discharges it)."""
	pass


@lemma('C18',
	requires=['0 <= n', 'n <= len(text)', 'len(d) == 1'],
	ensures=['0 <= seg_begin(text, d, toks, n)', 'seg_begin(text, d, toks, n) <= n', 'raw_concat(text, d, toks, n) == text[:seg_begin(text, d, toks, n)]'],
	decreases='n')
def lemma_rejoin(text: str, d: str, toks: str, n: int):
	"""T1: the raw segments, each followed by the delimiter, concatenate to the text up to the current segment start;
	with n == len(text):  raw_concat + text[seg_begin:] == text  (the pieces rejoined with the delimiter give back the fragment)."""
	if n > 0:
		lemma_rejoin(text, d, toks, n - 1)
		if is_cut(text, d, toks, n - 1):
			lemma_slice3(text, seg_begin(text, d, toks, n - 1), n - 1)


contract(BLOCK, 'BlockParser.break_separator', 'C18',
	instantiate={'delimiter': DELIMS},
	consts={'TOKS12': TOKS12, 'OPEN': '[({<"\''},
	ensures=[
		# code == spec: exactly the cuts at delimiters of code-level depth 0, segments stripped of blanks, empty last segment omitted
		'result == bs_spec(text, delimiter)',
	],
	# T2 (statement): on bracket-balanced fragments no cut is inside a bracket or quote and no piece is unbalanced.  Needs the
	# domination lemma between the code's scanner and the quote-aware stack machine: bounded stand-in, never counted as proved.
	bounded_ensures=['cuts_ok(text, delimiter, result)'],
	raises={},  # T3: no exception for any text
	loops={0: Loop(
		invariant=[
			'0 <= index', 'index <= len(text)',
			'index == len(text) or len(code_stack(text, TOKS12, 0, index)) == 0',
			'blocks == blocks_upto(text, delimiter, TOKS12, index)',
			'begin == seg_begin(text, delimiter, TOKS12, index)',
			'0 <= begin', 'begin <= index',
		],
		decreases='len(text) - index',
		hints_end=[
			'lemma_stack_restart(text, TOKS12, prev(index), index)',
			'implies(text[prev(index)] in OPEN, lemma_no_cuts(text, delimiter, TOKS12, prev(index), index))',
		])},
)


DECO = 'rogw/tranp/view/helper/decorator.py'


@lemma('C18', requires=['len(sep) == 1', 'sep in s'],
	ensures=['len(s.split(sep)) >= 2', 's.split(sep)[0] == s[:s.find(sep)]', 'sep.join(s.split(sep)[1:]) == s[s.find(sep) + 1:]', 's.split(sep)[0] == key_of(s, i) or sep != "="', 's[s.find(sep) + 1:] == val_of(s) or sep != "="'])
def lemma_split_head(s: str, sep: str, i: int):
	"""`label, *remain = s.split(sep)`: label is the text before the first separator, sep.join(remain) the text after it."""
	lemma_split_join(s[s.find(sep) + 1:], sep)


@lemma('C18', requires=["'=' in p"], ensures=["key_of(p, i) + '=' + val_of(p) == p", "'=' not in key_of(p, i)"])
def lemma_label_value(p: str, i: int):
	"""Top (statement): label + '=' + value reassembles the argument piece."""
	pass


contract(DECO, 'DecoratorHelper._parse', 'C18',
	replay='_deco_call',
	lets={'P': "bs_spec(decorator[decorator.find('(') + 1:len(decorator) - 1], ',')"},
	raises={},
	ensures=[
		"implies(decorator.find('(') == -1, result[0] == decorator and result[2] == '')",
		# Top: path and argument text are the parts around the first '(' and before the final character
		"implies(decorator.find('(') >= 0, result[0] == decorator[:decorator.find('(')] and result[2] == decorator[decorator.find('(') + 1:len(decorator) - 1])",
		# Top: every argument piece is stored under its label (or its position) with its value -- unless a later piece uses the same key
		"implies(decorator.find('(') >= 0, all(implies(all(key_of(P[j], j) != key_of(P[i], i) for j in range(i + 1, len(P))), "
		"key_of(P[i], i) in result[1] and result[1][key_of(P[i], i)] == val_of(P[i])) for i in range(len(P))))",
	],
	top=["implies(decorator.find('(') >= 0"],
	loops={0: Loop(
		invariant=[
			'_seq == P', '0 <= _i', '_i <= len(P)',
			'all(implies(all(key_of(P[j], j) != key_of(P[i], i) for j in range(i + 1, _i)), key_of(P[i], i) in args and args[key_of(P[i], i)] == val_of(P[i])) for i in range(_i))',
		],
		hints_head=[
			"implies(_i < len(P), lemma_count_pos(P[_i], '='))",
			"implies(_i < len(P) and '=' in P[_i], lemma_split_head(P[_i], '=', _i))",
		])},
)


CVH = 'rogw/tranp/implements/cpp/view/cpp_view_helper.py'
record('CppViewHelper.Param', {'var_type': 'str', 'symbol': 'str', 'default_value': 'str'}, source=(CVH, 'CppViewHelper.Param'))

contract(CVH, 'CppViewHelper.Param.parse', 'C18',
	types={'return': 'CppViewHelper.Param'},
	lets={'PD': "bs_spec(parameter, '=')", 'TS': "bs_spec(bs_spec(parameter, '=')[0], ' ')"},
	raises={'IndexError': 'len(PD) == 0 or len(TS) == 0'},
	ensures=[
		'result.symbol == last(TS)',
		"result.var_type == ' '.join(init(TS))",
		"result.default_value == (PD[1] if len(PD) == 2 else '')",
	],
	# Top (statement): `type name [= default]` decomposes into exactly its type, name and default (bounded stand-in)
	ghost_params={'g_type': 'str', 'g_name': 'str', 'g_default': 'str'},
	bounded_ensures=["implies(param_wf(g_type, g_name, g_default) and parameter == g_type + ' ' + g_name + (' = ' + g_default if g_default else ''), "
		"result.var_type == g_type and result.symbol == g_name and result.default_value == g_default)"],
)

ALPHA = 'a,()[]<>{}"\' :='


def _texts(rnd, tier):
	n = 6 if tier == 'quick' else 8
	while True:
		k = rnd.randint(0, n)
		yield ''.join(rnd.choice(ALPHA) for _ in range(k))


def gen_skip(rnd, tier):
	for t in _texts(rnd, tier):
		if t:
			yield {'text': t, 'other_tokens': rnd.choice([TOKS12] + TOKS10), 'begin': rnd.randrange(len(t))}


def gen_last_block(rnd, tier):
	for t in _texts(rnd, tier):
		br = rnd.choice(['()', '[]', '<>', '{}'])
		yield {'text': t, 'brackets': br, 'p': rnd.randint(-1, len(t))}
		# shaped inputs: P + b0 + G + b1
		g = ''.join(rnd.choice('a,' + br) for _ in range(rnd.randint(0, 4)))
		t2 = t + br[0] + g + br[1]
		yield {'text': t2, 'brackets': br, 'p': len(t)}


def gen_break_sep(rnd, tier):
	for t in _texts(rnd, tier):
		yield {'text': t, 'delimiter': rnd.choice(DELIMS)}
		yield {'text': t + rnd.choice('([{<') + t[::-1] + rnd.choice(')]}>') + t, 'delimiter': rnd.choice(DELIMS)}


def gen_deco(rnd, tier):
	names = ['a', 'b', 'x1', 'name', 'f(a=1, b=2)', '"q=="', '[1, 2]', 'k=v', 'a=b=c', 'n="x,y"', 'g(h(i), j)', '']
	while True:
		k = rnd.randint(0, 4)
		args = ', '.join(rnd.choice(names) for _ in range(k))
		yield {'self': None, 'decorator': rnd.choice(['Embed.alias', 'a.b', 'x']) + rnd.choice(['', f'({args})'])}


@native
def _deco_call(self=None, decorator=''):
	from rogw.tranp.view.helper.decorator import DecoratorHelper
	return DecoratorHelper(decorator)._parse(decorator)


def gen_param(rnd, tier):
	types = ['int', 'int*', 'const int&', 'std::map<int, bool>', 'std::function<void(int, int)>', 'A<B<C>>', 'unsigned long', 'T']
	names = ['n', 'p', 'value_1', 'x']
	dflts = ['', '0', 'nullptr', '{1, 2}', 'f(a, b)', '"a = b"', 'A<int>{}', 'std::string("x y")']
	while True:
		t, n, d = rnd.choice(types), rnd.choice(names), rnd.choice(dflts)
		yield {'parameter': t + ' ' + n + (' = ' + d if d else ''), 'g_type': t, 'g_name': n, 'g_default': d}
		yield {'parameter': ''.join(rnd.choice(ALPHA) for _ in range(rnd.randint(0, 6))), 'g_type': '', 'g_name': '', 'g_default': ''}


@native
def _analyze_call(cls=None, text='', brackets='()', delimiter=',', begin=0):
	"""BlockParser._analyze_entry on the real class; the kind is read by its value (as the contract does)."""
	from rogw.tranp.view.helper.block import BlockParser
	k, a, b = BlockParser._analyze_entry(text, brackets, delimiter, begin)
	return (k.value, a, b)


def gen_analyze(rnd, tier):
	alpha = list('ab ,:()[]{}<>"\'')
	while True:
		text = ''.join(rnd.choice(alpha) for _ in range(rnd.randint(1, 10)))
		yield {'cls': None, 'text': text, 'brackets': rnd.choice(['()', '[]', '{}', '<>']), 'delimiter': rnd.choice([',', ':', '']), 'begin': rnd.randrange(len(text))}


TWINS = {'BlockParser._analyze_entry': gen_analyze, 'CppViewHelper.Param.parse': gen_param, 'DecoratorHelper._parse': gen_deco, 'BlockParser._skip_other_block': gen_skip, 'BlockParser.break_last_block': gen_last_block, 'BlockParser.break_separator': gen_break_sep}


def _gen_nested(rnd, br, depth):
	"""identifier, optionally followed by a group of kind br whose members are such terms, other-kind groups or simple strings"""
	name = rnd.choice(['a', 'fn', 'T', 'x1'])
	if depth <= 0 or rnd.random() < 0.25:
		return name
	members = []
	for _ in range(rnd.randint(1, 3)):
		k = rnd.random()
		if k < 0.6:
			members.append(_gen_nested(rnd, br, depth - 1))
		elif k < 0.8:
			o = rnd.choice([p for p in ['()', '[]', '{}', '<>'] if p != br])
			members.append(f'{o[0]}{rnd.choice(["1", "q, r", ""])}{o[1]}')
		else:
			members.append(rnd.choice(['"s"', "'t, u'", '7']))
	return f'{name}{br[0]}{", ".join(members)}{br[1]}'


def parse_bracket_law(tier, seed):
	"""Bounded: every block parse_bracket lists for a balanced fragment is itself a balanced group of the requested kind and stands in the fragment where such a
	group stands; the first block is the fragment's first group."""
	import os
	import random
	import sys
	repo = os.environ.get('PYVC_REPO', '/repo')
	if repo not in sys.path:
		sys.path.insert(0, repo)
	from rogw.tranp.view.helper.block import BlockParser
	from specs.brackets import balanced
	rnd = random.Random(18_000 + seed)
	fails, n = [], 0
	for _ in range(400 if tier == 'quick' else 6000):
		br = rnd.choice(['()', '[]', '{}', '<>'])
		text = _gen_nested(rnd, br, rnd.randint(1, 4))
		if br[0] not in text:
			continue
		n += 1
		try:
			blocks = BlockParser.parse_bracket(text, br)
		except Exception as e:  # noqa: BLE001
			fails.append({'text': text, 'brackets': br, 'what': f'parse_bracket raised {type(e).__name__}: {str(e)[:80]}'})
			continue
		first = text[text.find(br[0]):]
		depth, end = 0, None
		for i, c in enumerate(first):
			depth += (c == br[0]) - (c == br[1])
			if depth == 0:
				end = i + 1
				break
		bad = [b for b in blocks if not (b.startswith(br[0]) and b.endswith(br[1]) and balanced(b) and b in text)]
		if bad:
			fails.append({'text': text, 'brackets': br, 'blocks': blocks, 'what': f'parse_bracket({text!r}, {br!r}) lists {bad[0]!r}, which is not a balanced {br} group of the fragment'})
		elif not blocks or blocks[0] != first[:end]:
			fails.append({'text': text, 'brackets': br, 'blocks': blocks, 'what': f'the first block of parse_bracket({text!r}, {br!r}) is {blocks[:1]}, the first group of the fragment is {first[:end]!r}'})
		if len(fails) >= 5:
			break
	return n, fails


def extra_checks(tier, seed, active_known):
	from pyvc.driver import Extra
	n, fails = parse_bracket_law(tier, seed)
	x = Extra(name='parse_bracket: every listed block is a balanced group of the requested kind standing in the fragment; the first block is the first group', kind='bounded', ok=not fails, cases=n,
		bound='400 (quick) / 6000 (thorough) balanced fragments: identifiers followed by groups nested to depth 4, with other-kind groups and simple strings (containing delimiters) as members; four bracket kinds',
		detail=f'{len(fails)} failing fragments', samples=[{'text': 'a(b(c(d)))', 'blocks': ['(b(c(d)))', '(c(d))', '(d)']}])
	x.distinct = n
	if fails:
		x.violation = {'what': fails[0]['what'], 'function': 'rogw/tranp/view/helper/block.py:BlockParser._parse / parse_bracket', 'inputs': fails[0], 'clause': 'no piece is unbalanced'}
		x.finding_key = 'parse-bracket-law'
	return [x]
