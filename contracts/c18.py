"""C18 — Fragment splitting helpers respect bracket and quote nesting."""
import itertools
from pyvc.api import contract, Loop
import specs.brackets  # noqa: F401

LEVEL = 'proof'
BLOCK = 'rogw/tranp/view/helper/block.py'
TOKS12 = '[](){}<>""\'\''
TOKS10 = ['(){}<>""\'\'', '[]{}<>""\'\'', '[]()<>""\'\'', '[](){}""\'\'']

contract(BLOCK, 'BlockParser._skip_other_block', 'C18',
	instantiate={'other_tokens': [TOKS12] + TOKS10},
	requires=['0 <= begin', 'begin < len(text)'],
	ensures=[
		'begin < result',
		'result <= len(text)',
		'result == len(text) or len(code_stack(text, other_tokens, begin, result)) == 0',
	],
	loops={0: Loop(
		invariant=[
			'begin <= index', 'index <= len(text)',
			'other_closes == code_stack(text, other_tokens, begin, index)',
			'index > begin or len(other_closes) == 0',
		],
		decreases='len(text) - index')},
)

ALPHA = 'a,()[]<>{}"\' :='


def _texts(rnd, tier):
	n = 6 if tier == 'quick' else 8
	while True:
		k = rnd.randint(0, n)
		yield ''.join(rnd.choice(ALPHA) for _ in range(k))


def gen_skip(rnd, tier):
	for t in _texts(rnd, tier):
		if t:
			yield {'text': t, 'other_tokens': rnd.choice([TOKS12] + TOKS10), 'begin': rnd.randrange(len(t))}


TWINS = {'BlockParser._skip_other_block': gen_skip}
