from __future__ import annotations
"""C05 — On-disk caches never change the result.

Proved: the enabled-gating of the symbol cache, the cache key of the symbol cache (an injective function of the ordered
content hashes of the module and its direct imports), and the dispatch of the cache proxies.  The whole-history statement
(warm == cold for every edit/run history, truncated cache files) is a bounded pipeline twin on the real CLI.
"""
from pyvc.api import contract, lemma, Loop, native
from specs.cachespec import PERS, MOD, CACHE
import specs.cachespec  # noqa: F401

import contracts.c14  # noqa: F401,E402  (the rows written to a module's symbol cache are chosen and ordered by SymbolDB._order_keys)

LEVEL = 'proof'

contract(PERS, 'SymbolDBPersistor._can_store', 'C05', types={'self': 'SymbolDBPersistor', 'module': 'ModuleRef'}, witness='witness_disabled_store',
	rewrites={'module.in_storage()': 'mod_in_storage(module)', 'self.sources.exists(filepath)': 'src_exists(self.sources, filepath)'},
	raises={},
	ensures=[
		# Top: with caching disabled no cache file is written
		'implies(result, self.setting.enabled)',
		'result == (self.setting.enabled and mod_in_storage(module) and not src_exists(self.sources, filepath))',
	])

contract(PERS, 'SymbolDBPersistor._can_restore', 'C05', types={'self': 'SymbolDBPersistor', 'module': 'ModuleRef'},
	rewrites={'module.in_storage()': 'mod_in_storage(module)', 'self.sources.exists(filepath)': 'src_exists(self.sources, filepath)'},
	raises={},
	ensures=[
		# Top: with caching disabled no cache file is read
		'implies(result, self.setting.enabled)',
		'result == (self.setting.enabled and mod_in_storage(module) and src_exists(self.sources, filepath))',
	])

contract(PERS, 'SymbolDBPersistor.stored', 'C05', types={'self': 'SymbolDBPersistor', 'module': 'ModuleRef', 'return': 'bool'},
	rewrites={'self._gen_filepath(module)': 'symbols_path(self, module)', 'module.in_storage()': 'mod_in_storage(module)', 'self.sources.exists(filepath)': 'src_exists(self.sources, filepath)',
		'self.sources.exists(self._gen_filepath(module))': 'src_exists(self.sources, symbols_path(self, module))'},
	raises={},
	ensures=[
		# Top: with caching disabled a module never counts as stored (so the preprocessors do not stop at a restore that reads nothing)
		'implies(result, self.setting.enabled)',
		'result == (self.setting.enabled and mod_in_storage(module) and src_exists(self.sources, symbols_path(self, module)))'])

@lemma('C05', requires=['0 <= n', 'n <= len(files)'],
	ensures=['len(hashes(l, files, n)) == n', 'all(hashes(l, files, n)[i] == src_hash(l, files[i]) for i in range(n))'], decreases='n')
def lemma_hashes_elems(l: Loader, files: list[str], n: int):
	"""hashes is the element-wise hash of the file list, in order."""
	if n > 0:
		lemma_hashes_elems(l, files, n - 1)


contract(MOD, 'Module.identity', 'C05', known=['F-C05-a'],
	hints_entry=['lemma_hashes_elems(self.__sources, import_files(self.__entrypoint) + [own_file(self.__module_path)], len(import_files(self.__entrypoint)) + 1)'], types={'self': 'Module', 'depends_files': 'list[str]', 'identities': 'list[str]'},
	rewrites={
		'self.__sources.exists(self.filepath)': 'src_exists(self.__sources, own_file(self.__module_path))',
		'str(id(self))': 'instance_id(self)',
		"[module_path_to_filepath(import_node.import_path.tokens, f'.{self.module_path.language}') for import_node in self.entrypoint.imports]": 'import_files(self.__entrypoint)',
		'self.filepath': 'own_file(self.__module_path)',
		'self.__sources.hash(filepath)': 'src_hash(self.__sources, filepath)',
		"hashlib.md5(str(identities).encode('utf-8')).hexdigest()": 'md5_of_list(identities)',
	},
	modifies=['self.__identity'],
	requires=["self.__identity == '' or self.__identity == md5_of_list(hashes(self.__sources, import_files(self.__entrypoint) + [own_file(self.__module_path)], len(import_files(self.__entrypoint)) + 1))"],
	raises={},
	ensures=[
		# Top: the key of the symbol cache is an injective function of the *ordered* content hashes of the directly imported files and the module itself
		'implies(src_exists(self.__sources, own_file(self.__module_path)), result == md5_of_list(hashes(self.__sources, import_files(self.__entrypoint) + [own_file(self.__module_path)], len(import_files(self.__entrypoint)) + 1)))',
		'implies(not src_exists(self.__sources, own_file(self.__module_path)), result == instance_id(self))',
	])

contract(CACHE, 'CachedDummy.get', 'C05', types={'self': 'CachedRec', 'return': 'StoredRef'},
	rewrites={'self._factory()': 'run_factory(self._factory)'},
	raises={},
	ensures=[
		# Top: with caching disabled the proxy only runs the factory: no cache path is computed, nothing is read or written (the body has no other call)
		'result == run_factory(self._factory)',
	])

contract(CACHE, 'CachedProxy.get', 'C05', types={'self': 'CachedRec', 'return': 'StoredRef', 'instance': 'StoredRef'},
	rewrites={
		'self.gen_cache_path(cache_key)': 'cache_path_of(self, cache_key)',
		'self.cache_exists(cache_path)': 'fs_exists(cache_path)',
		'self.load_cache(cache_path)': 'fs_load(self, cache_path)',
		'self.instantiate()': 'run_factory(self._factory)',
		'self.save_cache(instance, cache_path)': 'fs_save(self, instance, cache_path)',
	},
	raises={},
	ensures=[
		# an existing file under the key's path is trusted; otherwise the factory's value is returned (and saved under that path)
		'result == (fs_load(self, cache_path_of(self, cache_key)) if fs_exists(cache_path_of(self, cache_key)) else run_factory(self._factory))',
	])

TRUSTED_BASE = ['hashlib.md5 injective on the inputs that occur', 'ISourceLoader.exists/hash, Module.in_storage, os.path.exists, glob, json and pickle as assumed externals',
	'edit model of the statement: a content change changes the mtime']
ASSUMPTIONS = ['CacheProvider.get (nested closures), CachedProxy.save_cache/find_oldest/load_cache (file I/O, glob) are outside the VC subset: covered only by the bounded pipeline twin',
	'warm == cold over whole histories is a bounded stand-in (pipeline twin on graphs without indirect imports); the transitive case is known finding F-C05-a']


def extra_checks(tier, seed, active_known):
	from pyvc.driver import Extra
	from twins import pipeline
	runs, fails = pipeline.history_twin(tier, seed)
	x = Extra(name='warm == cold over edit/run/clear-cache histories and truncated cache files (real CLI)', kind='bounded', ok=not fails, cases=runs,
		bound='2 (quick) / 8 (thorough) random histories of 3-5 operations on a top module importing two leaves with 3 content variants each; each cache-using run compared with a cold run; one cache file truncated at 4 offsets',
		detail=f'{len(fails)} mismatching histories', samples=[{'history': ['edit l1.py=2', 'run', 'clear-cache', 'run'], 'verdict': 'warm output == cold output'}])
	x.distinct = runs
	if fails:
		x.violation = {'what': fails[0]['what'], 'function': 'pipeline (rogw/tranp/cache, semantics/reflection/persistent.py)', 'inputs': fails[0], 'clause': 'output_warm == output_cold'}
		x.finding_key = 'pipeline|warm-cold'
	runs2, fails2 = pipeline.cache_scenarios()
	r3, f3 = pipeline.prefix_module_cache()
	runs2, fails2 = runs2 + r3, fails2 + f3
	y = Extra(name='scripted cache histories: an edit within the same whole second as the cached file; a disabled run on a directory filled by an enabled run', kind='bounded', ok=not fails2, cases=runs2,
		bound='3 scripted histories of 3 runs each (same-second edit; enabled then disabled; module paths in prefix relation imported by a third module) on the real CLI', detail=f'{len(fails2)} failing histories', samples=[{'history': ['run (caching enabled)', 'disable caching', 'run', 'clear-cache', 'run'], 'verdict': 'equal outputs, cache directory untouched'}])
	y.distinct = runs2
	if fails2:
		y.violation = {'what': fails2[0]['what'], 'function': 'pipeline (implements/syntax/lark/parser.py entry cache identity, semantics/reflection/persistent.py)', 'inputs': fails2[0], 'clause': 'output_warm == output_cold; caching disabled => no cache access'}
		y.finding_key = 'pipeline|cache-scenarios'
	return [x, y]


def known_transitive(kf):
	from twins import pipeline
	return pipeline.transitive_stale_symbols()[0]


def known_disabled_store(kf):
	from twins import pipeline
	return pipeline.disabled_cache_writes()[0]


def witness_disabled_store():
	from twins import pipeline
	return pipeline.disabled_cache_writes()
