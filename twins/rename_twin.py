"""Bounded twin for C08: consistent renaming of user identifiers (node level).

For a corpus of snippets and a family of injective renamings (one-letter names, names that are prefixes/suffixes of other
names, names ending in reserved-looking fragments such as 'Enum', names with double underscores) the node tree of the renamed
program must be the node tree of the original with the same renaming applied: same node class per path, same declared
variables per function, same captured variables per closure -- names change only by the renaming.  Never counted as proved."""
import io
import keyword
import os
import sys
import tokenize

REPO = os.environ.get('PYVC_REPO', '/repo')

SNIPPETS = {
	'closure': ('def outer(count: int, scale: int) -> int:\n\tdef calc(k: int) -> int:\n\t\treturn k * count + scale\n\treturn calc(1)\n', ['outer', 'count', 'scale', 'calc', 'k']),
	'classes': ('class Marker:\n\tn: int = 0\n\tdef get(self) -> int:\n\t\treturn self.n\nclass Thing(Marker):\n\tm: int = 1\n\tdef both(self) -> int:\n\t\treturn self.n + self.m\n', ['Marker', 'Thing', 'n', 'm', 'get', 'both']),
	'enum': ('from enum import Enum\nclass Color(Enum):\n\tRed = 1\n\tBlue = 2\nclass Holder:\n\tc: int = 0\ndef pick(v: int) -> int:\n\tfirst = v\n\tfor item in range(v):\n\t\tfirst = item\n\treturn first\n', ['Color', 'Red', 'Blue', 'Holder', 'c', 'pick', 'v', 'first', 'item']),
	'nested': ('def top(a: int) -> int:\n\ttotal = a\n\tfor i in range(a):\n\t\tfor j in range(i):\n\t\t\ttotal = total + j\n\tvalues = [w for w in range(a)]\n\treturn total\n', ['top', 'a', 'total', 'i', 'j', 'values', 'w']),
}


def renamings(names):
	"""A few injective renamings of the user identifiers (deterministic; none maps to a keyword or builtin)."""
	letters = 'clnkqstuvwxyzabdefghjmopr'
	outs = []
	outs.append({n: letters[i] for i, n in enumerate(names)})                       # one-letter names
	outs.append({n: n + 'Enum' for n in names})                                     # reserved-looking suffix
	outs.append({n: 'x' * (i + 1) for i, n in enumerate(names)})                    # each name a prefix of the next
	outs.append({n: f'{n}__{names[(i + 1) % len(names)]}' for i, n in enumerate(names)})  # separator-like fragments, shared substrings
	outs.append({n: names[(i + 1) % len(names)] + '_' for i, n in enumerate(names)})  # permuted spellings
	# some names keep their spelling, the others become single letters *taken from the kept names* (a name that is a substring of another)
	for parity in (0, 1):
		kept = [n for i, n in enumerate(names) if i % 2 == parity]
		pool0 = [ch for ch in dict.fromkeys(''.join(kept)) if ch.isalpha() and ch not in names]
		for rot in range(min(len(pool0), 6)):
			pool = pool0[rot:] + pool0[:rot]
			m = {}
			for i, n in enumerate(names):
				if i % 2 != parity and pool:
					m[n] = pool.pop(0)
			outs.append(m)
	return outs


def rename(src, mapping):
	out = []
	for tok in tokenize.generate_tokens(io.StringIO(src).readline):
		if tok.type == tokenize.NAME and tok.string in mapping and not keyword.iskeyword(tok.string):
			out.append((tok.type, mapping[tok.string]))
		else:
			out.append((tok.type, tok.string))
	return tokenize.untokenize(out)


def tree_facts(fx, defs, src):
	ep = fx.custom_module(src).entrypoint
	facts = {'classes': [], 'decl_vars': [], 'captures': []}
	def walk(n):
		yield n
		for c in n.procedural():
			yield c
	for node in [*ep.procedural(), ep]:
		facts['classes'].append((node.full_path, type(node).__name__))
		if isinstance(node, defs.Function):
			facts['decl_vars'].append((node.full_path, sorted(v.symbol.tokens for v in node.decl_vars)))
		if isinstance(node, defs.Closure):
			facts['captures'].append((node.full_path, sorted(v.tokens for v in node.ref_vars())))
	return facts


def map_names(xs, mapping):
	return sorted(mapping.get(x, x) for x in xs)


def run(tier):
	cwd = os.getcwd()
	os.chdir(REPO)
	if REPO not in sys.path:
		sys.path.insert(0, REPO)
	try:
		from tests.test.fixture import Fixture
		import rogw.tranp.syntax.node.definition as defs
		fx = Fixture.make(f'{REPO}/tests/unit/rogw/tranp/semantics/test_reflections.py')
		n, fails = 0, []
		for name, (src, names) in SNIPPETS.items():
			base = tree_facts(fx, defs, src)
			for ri, m in enumerate(renamings(names)):
				n += 1
				try:
					got = tree_facts(fx, defs, rename(src, m))
				except Exception as e:  # noqa: BLE001
					fails.append({'snippet': name, 'renaming': m, 'what': f'renamed program fails: {type(e).__qualname__}: {str(e)[:150]}'})
					continue
				if [c for _, c in got['classes']] != [c for _, c in base['classes']]:
					diff = [(a, b) for a, b in zip(base['classes'], got['classes']) if a[1] != b[1]][:2]
					fails.append({'snippet': name, 'renaming': m, 'what': f'node classes change under renaming: {diff}'})
				for (p, a), (_, b) in zip(base['decl_vars'], got['decl_vars']):
					if map_names(a, m) != b:
						fails.append({'snippet': name, 'renaming': m, 'what': f'declared variables of {p}: {b} != renamed {map_names(a, m)}'})
				for (p, a), (_, b) in zip(base['captures'], got['captures']):
					if map_names(a, m) != b:
						fails.append({'snippet': name, 'renaming': m, 'what': f'captured variables of closure {p}: {b} != renamed {map_names(a, m)}'})
		return n, fails
	finally:
		os.chdir(cwd)
		import shutil
		shutil.rmtree(os.path.join(REPO, '.cache'), ignore_errors=True)
