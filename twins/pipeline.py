"""Whole-pipeline runs of the real CLI on scratch projects (Python 3.13: py2cpp.py needs typing.TypeIs).

Used only to replay witnesses of known findings and counter-models end to end; never part of a proof.
Scratch projects live under a fresh temporary directory and are removed by the caller (`Project.close`).
"""
import os
import shutil
import subprocess
import tempfile

REPO = os.environ.get('PYVC_REPO', '/repo')
PY313 = '/root/.pyenv/versions/3.13.0/bin/python'
SITE = '/venv/lib/python3.12/site-packages'


class Project:
	def __init__(self, cache_enabled: bool = True):
		self.dir = tempfile.mkdtemp(prefix='tranp_proj_')
		self.tick = 1_700_000_000
		self.cache_enabled = cache_enabled
		cfg = [
			f'grammar: {REPO}/data/grammar.lark',
			'template_dirs:', f'  - {REPO}/data/cpp/template',
			f'trans_mapping: {REPO}/data/i18n.yml',
			'input_globs:', '  - src/**/*.py', '  - src/*.py',
			'output_dirs:', '  - out/',
			'output_language: cpp:h',
			'exclude_patterns: []',
			'env:', '  transpiler:', '    include_dirs: []', '  view:', '    immutable_param_types: []',
		]
		if not cache_enabled:
			cfg += ['di:', '  rogw.tranp.cache.cache.CacheSetting: vprov.cache_off']
			os.makedirs(os.path.join(self.dir, 'vprov_pkg'), exist_ok=True)
			with open(os.path.join(self.dir, 'vprov.py'), 'w') as f:
				f.write('from rogw.tranp.cache.cache import CacheSetting\n\ndef cache_off() -> CacheSetting:\n\treturn CacheSetting(basedir=".cache/tranp", enabled=False)\n')
		with open(os.path.join(self.dir, 'config.yml'), 'w') as f:
			f.write('\n'.join(cfg) + '\n')
		os.makedirs(os.path.join(self.dir, 'src'), exist_ok=True)

	def write(self, name: str, text: str) -> None:
		p = os.path.join(self.dir, 'src', name)
		os.makedirs(os.path.dirname(p), exist_ok=True)
		with open(p, 'w') as f:
			f.write(text)
		self.tick += 10
		os.utime(p, (self.tick, self.tick))

	def run(self, force: bool = False, timeout: int = 120) -> subprocess.CompletedProcess:
		env = dict(os.environ)
		env['PYTHONPATH'] = f'{REPO}:{SITE}:{self.dir}'
		args = [PY313, f'{REPO}/rogw/tranp/bin/transpile.py', '-c', 'config.yml'] + (['-f'] if force else [])
		return subprocess.run(args, cwd=self.dir, env=env, capture_output=True, text=True, timeout=timeout)

	def outputs(self) -> dict[str, str]:
		out: dict[str, str] = {}
		root = os.path.join(self.dir, 'out')
		for d, _, fs in os.walk(root):
			for fn in fs:
				p = os.path.join(d, fn)
				out[os.path.relpath(p, root)] = open(p).read()
		return out

	def clear_cache(self) -> None:
		shutil.rmtree(os.path.join(self.dir, '.cache'), ignore_errors=True)

	def cache_files(self) -> list[str]:
		out = []
		for d, _, fs in os.walk(os.path.join(self.dir, '.cache')):
			out += [os.path.join(d, f) for f in fs]
		return out

	def close(self) -> None:
		shutil.rmtree(self.dir, ignore_errors=True)


def body_without_header(text: str) -> str:
	"""Output text without its first line (the meta header carries the source hash)."""
	return text.split('\n', 1)[1] if '\n' in text else ''


def stale_after_dependency_edit() -> tuple[bool, str]:
	"""F-C06-a witness: a -> b; run; edit b (changes a's inferred type); run; compare with a forced run."""
	p = Project()
	try:
		p.write('b.py', 'def g() -> int:\n\treturn 1\n')
		p.write('a.py', 'from src.b import g\n\ndef f() -> None:\n\tx = g()\n')
		r1 = p.run()
		if r1.returncode != 0:
			return False, f'first run failed: {r1.stderr[-300:]}'
		p.write('b.py', 'def g() -> str:\n\treturn "s"\n')
		r2 = p.run()
		nonforced = p.outputs()
		r3 = p.run(force=True)
		forced = p.outputs()
		if r2.returncode != 0 or r3.returncode != 0:
			return False, f'run failed: {r2.stderr[-200:]} {r3.stderr[-200:]}'
		diff = [k for k in forced if body_without_header(forced[k]) != body_without_header(nonforced.get(k, ''))]
		return bool(diff), f'after editing src/b.py a non-forced run leaves {diff} different from a forced run'
	finally:
		p.close()
