"""Whole-pipeline runs of the real CLI on scratch projects (Python 3.13: py2cpp.py needs typing.TypeIs).

Used only to replay witnesses of known findings and counter-models end to end; never part of a proof.
Scratch projects live under a fresh temporary directory and are removed by the caller (`Project.close`).
"""
import os
import shutil
import subprocess
import tempfile

REPO = os.environ.get('PYVC_REPO', '/repo')
PY313 = '/root/.pyenv/versions/3.13.0/bin/python'
SITE = '/venv/lib/python3.12/site-packages'


class Project:
	def __init__(self, cache_enabled: bool = True):
		self.dir = tempfile.mkdtemp(prefix='tranp_proj_')
		self.tick = 1_700_000_000
		self.cache_enabled = cache_enabled
		cfg = [
			f'grammar: {REPO}/data/grammar.lark',
			'template_dirs:', f'  - {REPO}/data/cpp/template',
			f'trans_mapping: {REPO}/data/i18n.yml',
			'input_globs:', '  - src/**/*.py', '  - src/*.py',
			'output_dirs:', '  - out/',
			'output_language: cpp:h',
			'exclude_patterns: []',
			'env:', '  transpiler:', '    include_dirs: []', '  view:', '    immutable_param_types: []',
		]
		if not cache_enabled:
			cfg += ['di:', '  rogw.tranp.cache.cache.CacheSetting: vprov.cache_off']
			os.makedirs(os.path.join(self.dir, 'vprov_pkg'), exist_ok=True)
			with open(os.path.join(self.dir, 'vprov.py'), 'w') as f:
				f.write('from rogw.tranp.cache.cache import CacheSetting\n\ndef cache_off() -> CacheSetting:\n\treturn CacheSetting(basedir=".cache/tranp", enabled=False)\n')
		with open(os.path.join(self.dir, 'config.yml'), 'w') as f:
			f.write('\n'.join(cfg) + '\n')
		os.makedirs(os.path.join(self.dir, 'src'), exist_ok=True)

	def write(self, name: str, text: str, mtime: float | None = None) -> None:
		p = os.path.join(self.dir, 'src', name)
		os.makedirs(os.path.dirname(p), exist_ok=True)
		with open(p, 'w') as f:
			f.write(text)
		if mtime is None:
			self.tick += 10
			mtime = self.tick
		os.utime(p, (mtime, mtime))

	def set_cache_enabled(self, enabled: bool) -> None:
		"""Rewrite config.yml so that the next run uses caching enabled / disabled on the same cache directory."""
		cfgp = os.path.join(self.dir, 'config.yml')
		lines = [ln for ln in open(cfgp).read().split('\n') if ln and not ln.startswith('di:') and 'CacheSetting' not in ln]
		if not enabled:
			lines += ['di:', '  rogw.tranp.cache.cache.CacheSetting: vprov.cache_off']
			with open(os.path.join(self.dir, 'vprov.py'), 'w') as f:
				f.write('from rogw.tranp.cache.cache import CacheSetting\n\ndef cache_off() -> CacheSetting:\n\treturn CacheSetting(basedir=".cache/tranp", enabled=False)\n')
		with open(cfgp, 'w') as f:
			f.write('\n'.join(lines) + '\n')

	def run(self, force: bool = False, timeout: int = 120) -> subprocess.CompletedProcess:
		env = dict(os.environ)
		env['PYTHONPATH'] = f'{REPO}:{SITE}:{self.dir}'
		args = [PY313, f'{REPO}/rogw/tranp/bin/transpile.py', '-c', 'config.yml'] + (['-f'] if force else [])
		return subprocess.run(args, cwd=self.dir, env=env, capture_output=True, text=True, timeout=timeout)

	def run_outcome(self, force: bool = True) -> dict[str, str]:
		"""Run on an emptied output directory and return {file: body without header}, or {'<error>': ...} when the CLI reports an error
		(the CLI prints the error and still exits 0, and outputs of earlier runs would otherwise be mistaken for this run's)."""
		shutil.rmtree(os.path.join(self.dir, 'out'), ignore_errors=True)
		r = self.run(force=force)
		text = r.stdout + r.stderr
		if r.returncode != 0 or 'rogw.tranp.errors.Errors.' in text or 'Traceback (most recent call last)' in text or 'Error: ' in text.split('\n')[-2:][0]:
			return {'<error>': text[-300:]}
		return {k: body_without_header(v) for k, v in self.outputs().items()}

	def outputs(self) -> dict[str, str]:
		out: dict[str, str] = {}
		root = os.path.join(self.dir, 'out')
		for d, _, fs in os.walk(root):
			for fn in fs:
				p = os.path.join(d, fn)
				out[os.path.relpath(p, root)] = open(p).read()
		return out

	def clear_cache(self) -> None:
		shutil.rmtree(os.path.join(self.dir, '.cache'), ignore_errors=True)

	def cache_files(self) -> list[str]:
		out = []
		for d, _, fs in os.walk(os.path.join(self.dir, '.cache')):
			out += [os.path.join(d, f) for f in fs]
		return out

	def close(self) -> None:
		shutil.rmtree(self.dir, ignore_errors=True)


def body_without_header(text: str) -> str:
	"""Output text without its first line (the meta header carries the source hash)."""
	return text.split('\n', 1)[1] if '\n' in text else ''


def stale_after_dependency_edit() -> tuple[bool, str]:
	"""F-C06-a witness: a -> b; run; edit b (changes a's inferred type); run; compare with a forced run."""
	p = Project()
	try:
		p.write('b.py', 'def g() -> int:\n\treturn 1\n')
		p.write('a.py', 'from src.b import g\n\ndef f() -> None:\n\tx = g()\n')
		r1 = p.run()
		if r1.returncode != 0:
			return False, f'first run failed: {r1.stderr[-300:]}'
		p.write('b.py', 'def g() -> str:\n\treturn "s"\n')
		r2 = p.run()
		nonforced = p.outputs()
		r3 = p.run(force=True)
		forced = p.outputs()
		if r2.returncode != 0 or r3.returncode != 0:
			return False, f'run failed: {r2.stderr[-200:]} {r3.stderr[-200:]}'
		diff = [k for k in forced if body_without_header(forced[k]) != body_without_header(nonforced.get(k, ''))]
		return bool(diff), f'after editing src/b.py a non-forced run leaves {diff} different from a forced run'
	finally:
		p.close()


def disabled_cache_writes() -> tuple[bool, str]:
	"""F-C05-b witness: with caching disabled (CacheSetting.enabled False injected through the di: key) a run still tries to write symbols files:
	it either leaves files under the cache directory or dies in SymbolDBPersistor._store because nothing created that directory."""
	p = Project(cache_enabled=False)
	try:
		p.write('b.py', 'def g() -> int:\n\treturn 1\n')
		r = p.run()
		files = p.cache_files()
		text = r.stdout + r.stderr
		if '_store' in text and 'FileNotFoundError' in text:
			return True, 'run with caching disabled died in SymbolDBPersistor._store (FileNotFoundError): it tried to write a cache file'
		if files:
			return True, f'cache files written with caching disabled: {[os.path.relpath(f, p.dir) for f in files][:3]}'
		return False, f'no cache access; outputs: {sorted(p.outputs())}'
	finally:
		p.close()


def transitive_stale_symbols() -> tuple[bool, str]:
	"""F-C05-a witness: a -> b -> c; run (warm the caches); edit c so that b.y changes type; forced warm run vs forced cold run."""
	p = Project()
	try:
		p.write('c.py', 'def h() -> int:\n\treturn 1\n')
		p.write('b.py', 'from src.c import h\n\ny = h()\n')
		p.write('a.py', 'from src.b import y\n\ndef f() -> None:\n\tz = y\n')
		r1 = p.run(force=True)
		if r1.returncode != 0:
			return False, f'first run failed: {r1.stderr[-300:]}'
		p.write('c.py', 'def h() -> str:\n\treturn "s"\n')
		r2 = p.run(force=True)
		warm = p.outputs()
		p.clear_cache()
		r3 = p.run(force=True)
		cold = p.outputs()
		if r2.returncode != 0 or r3.returncode != 0:
			return False, f'run failed: {r2.stderr[-200:]} {r3.stderr[-200:]}'
		diff = [k for k in cold if body_without_header(cold[k]) != body_without_header(warm.get(k, ''))]
		return bool(diff), f'after editing src/c.py the warm run differs from the cold run in {diff}'
	finally:
		p.close()


VARIANTS = {
	'leaf': ['def h() -> int:\n\treturn 1\n', 'def h() -> str:\n\treturn "s"\n', 'def h() -> float:\n\treturn 1.0\n'],
}


# the top module: two leaf imports and a function with eleven parameters (symbols with more than ten attributes on one level)
TOP = ('from src.l1 import h as h1\nfrom src.l2 import h as h2\n\n'
	'def wide(p0: int, p1: str, p2: int, p3: str, p4: int, p5: str, p6: int, p7: str, p8: str, p9: int, p10: float) -> str:\n\treturn p1\n\n'
	'def f() -> None:\n\ta = h1()\n\tb = h2()\n\tw = wide(1, "a", 2, "b", 3, "c", 4, "d", "e", 5, 1.0)\n')


def history_twin(tier: str, seed: int, skip_transitive: bool = True) -> tuple[int, list[dict]]:
	"""Bounded histories on graphs *without* indirect imports (the transitive case is the listed finding F-C05-a):
	top imports two leaves; operations edit(leaf, variant) / run / clear-cache; every run is compared with a cold run of the same sources.
	Also: every cache file truncated at a few offsets must make the next run fail or give the cold output."""
	import random
	rnd = random.Random(seed)
	fails: list[dict] = []
	runs = 0
	n_hist = 2 if tier == 'quick' else 8
	scripted = [[('edit', 'l1.py', 1), ('edit', 'l2.py', 0), ('run',)]]  # swap the contents of the two leaves: same set of hashes, different assignment
	for hno in range(n_hist + len(scripted)):
		p = Project()
		script = scripted[hno] if hno < len(scripted) else None
		try:
			state = {'l1.py': 0, 'l2.py': 1}
			for k, v in state.items():
				p.write(k, VARIANTS['leaf'][v])
			p.write('top.py', TOP)
			ops = []
			p.run(force=True)
			runs += 1
			ops.append('run')
			for step in range(len(script) if script else (3 if tier == 'quick' else 5)):
				op = script[step][0] if script else rnd.choice(['edit', 'edit', 'run', 'clear'])
				if op == 'edit':
					leaf = script[step][1] if script else rnd.choice(list(state))
					state[leaf] = script[step][2] if script else rnd.randrange(len(VARIANTS['leaf']))
					p.write(leaf, VARIANTS['leaf'][state[leaf]])
					ops.append(f'edit {leaf}={state[leaf]}')
				elif op == 'clear':
					p.clear_cache()
					ops.append('clear-cache')
				if script and op != 'run':
					continue
				warm = p.run_outcome()
				runs += 1
				ops.append('run')
				# cold oracle: same sources, empty cache, separate project
				q = Project()
				try:
					for k, v in state.items():
						q.write(k, VARIANTS['leaf'][v])
					q.write('top.py', TOP)
					cold = q.run_outcome()
					runs += 1
				finally:
					q.close()
				if ('<error>' in warm) != ('<error>' in cold) or ('<error>' not in warm and warm != cold):
					fails.append({'history': list(ops), 'state': dict(state), 'what': 'warm run differs from cold run', 'warm': str(warm)[:300], 'cold': str(cold)[:300]})
					break
			# truncation of one cache file
			files = [f for f in p.cache_files() if f.endswith('.json')]
			if files and not fails:
				f = rnd.choice(files)
				data = open(f, 'rb').read()
				for off in sorted({0, 1, len(data) // 2, max(0, len(data) - 1)}):
					open(f, 'wb').write(data[:off])
					r = p.run(force=True)
					runs += 1
					if r.returncode == 0:
						out = {k: body_without_header(v) for k, v in p.outputs().items()}
						if out != cold:
							fails.append({'history': ops + [f'truncate {os.path.basename(f)} at {off}', 'run'], 'what': 'run succeeded with other content after a damaged cache file'})
					open(f, 'wb').write(data)
		finally:
			p.close()
	return runs, fails


def cache_scenarios() -> tuple[int, list[dict]]:
	"""Two scripted histories for C05: (1) an edit that lands in the same whole second as the cached version of the file (the entry
	cache identity must see it); (2) a run with caching disabled on a cache directory that an enabled run filled (must behave like a
	disabled run on an empty directory and leave the directory untouched)."""
	fails: list[dict] = []
	runs = 0

	def bodies(p: 'Project', r) -> dict:
		return {k: body_without_header(v) for k, v in p.outputs().items()} if r.returncode == 0 else {'<error>': (r.stdout + r.stderr)[-300:]}
	lib1 = 'def size() -> int:\n\treturn 1\n'
	lib2 = 'def size() -> str:\n\treturn "s"\n\ndef twice() -> str:\n\treturn "ss"\n'
	use = 'from src.lib import size\n\ndef f() -> None:\n\tn = size()\n'
	# (1) sub-second edit
	p = Project()
	try:
		p.write('lib.py', lib1, mtime=1_700_000_100.25)
		p.write('use.py', use, mtime=1_700_000_050.0)
		p.run(force=True)
		p.write('lib.py', lib2, mtime=1_700_000_100.75)
		warm = p.run_outcome()
		p.clear_cache()
		cold = p.run_outcome()
		runs += 3
		if warm != cold:
			fails.append({'history': ['write lib.py (mtime x.25)', 'run', 'edit lib.py (mtime x.75, same second)', 'run', 'clear-cache', 'run'], 'what': 'warm run after an edit within the same whole second differs from the cold run', 'diff': sorted(k for k in set(warm) | set(cold) if warm.get(k) != cold.get(k))})
	finally:
		p.close()
	# (2) enabled run, then disabled run on the same directory
	p = Project()
	try:
		p.write('lib.py', lib1)
		p.write('use.py', use)
		p.run(force=True)
		before = sorted((f, os.path.getsize(f), os.path.getmtime(f)) for f in p.cache_files())
		p.set_cache_enabled(False)
		out1 = p.run_outcome()
		after = sorted((f, os.path.getsize(f), os.path.getmtime(f)) for f in p.cache_files())
		p.clear_cache()
		out2 = p.run_outcome()
		runs += 3
		if out1 != out2:
			fails.append({'history': ['run (caching enabled)', 'disable caching', 'run', 'clear-cache', 'run'], 'what': 'a run with caching disabled depends on what an earlier enabled run left in the cache directory', 'first': str(out1)[:300], 'second': str(out2)[:300]})
		elif before != after:
			fails.append({'history': ['run (caching enabled)', 'disable caching', 'run'], 'what': 'a run with caching disabled touched the cache directory'})
	finally:
		p.close()
	return runs, fails


def own_edit_regenerates() -> tuple[int, list[dict]]:
	"""C06 on the real CLI: after a module's own source is edited, a non-forced run regenerates its output (equal to a forced run), also when
	another listed module has a path that extends this one's (src/net.py next to src/network/client.py, util.py next to util_ext.py) and the
	longer one is listed first; untouched modules keep their outputs."""
	fails: list[dict] = []
	runs = 0
	pairs = [('net.py', 'network/client.py'), ('util.py', 'util_ext.py'), ('a.py', 'b.py')]
	for short, long_ in pairs:
		p = Project()
		try:
			p.write(long_, 'def other() -> int:\n\treturn 7\n')
			p.write(short, 'def size() -> int:\n\treturn 1500\n')
			first = p.run(force=False)
			before = p.outputs()
			p.write(short, 'def size() -> int:\n\treturn 9000\n')
			p.run(force=False)
			nonforced = {k: body_without_header(v) for k, v in p.outputs().items()}
			forced = p.run_outcome(force=True)
			runs += 3
			if nonforced != forced:
				diff = sorted(k for k in set(nonforced) | set(forced) if nonforced.get(k) != forced.get(k))
				fails.append({'modules': [long_, short], 'history': ['run', f'edit src/{short}', 'run', 'run -f'], 'what': f'after editing src/{short} a non-forced run leaves {diff} different from a forced run', 'nonforced': str({k: nonforced.get(k, '')[-60:] for k in diff})[:300]})
			# an output that exists but carries no readable header (emptied, or replaced by a stub) must be regenerated by a non-forced run
			outs = [os.path.join(d, f) for d, _, fs in os.walk(os.path.join(p.dir, 'out')) for f in fs]
			for content, label in (('', 'emptied'), ('// hand-written stub\nint size();\n', 'replaced by a stub without header')):
				if not outs:
					break
				with open(outs[0], 'w') as fh:
					fh.write(content)
				p.run(force=False)
				runs += 1
				got = {k: body_without_header(v) for k, v in p.outputs().items()}
				if got != forced:
					fails.append({'modules': [long_, short], 'history': ['run -f', f'{os.path.relpath(outs[0], p.dir)} {label}', 'run'], 'what': f'an output that was {label} is not regenerated by a non-forced run'})
		finally:
			p.close()
	return runs, fails


def prefix_module_cache() -> tuple[int, list[dict]]:
	"""C05: two modules whose paths share a textual prefix (util / util_ext), both imported by a third; after an edit of the longer-named one a warm run equals a cold run."""
	fails: list[dict] = []
	p = Project()
	try:
		p.write('util_ext.py', 'class Ext:\n\tdef size(self) -> int:\n\t\treturn 1\n')
		p.write('util.py', 'def base() -> int:\n\treturn 1\n')
		p.write('app.py', 'from src.util_ext import Ext\nfrom src.util import base\n\ndef f(e: Ext) -> None:\n\tx = e.size()\n\ty = base()\n')
		p.run(force=True)
		p.write('util_ext.py', 'class Ext:\n\tdef size(self) -> str:\n\t\treturn "s"\n')
		warm = p.run_outcome()
		p.clear_cache()
		cold = p.run_outcome()
		if warm != cold:
			fails.append({'history': ['run', 'edit src/util_ext.py (return type)', 'run', 'clear-cache', 'run'], 'what': 'warm run differs from cold run after editing a module whose path extends the path of another module', 'diff': sorted(k for k in set(warm) | set(cold) if warm.get(k) != cold.get(k))})
	finally:
		p.close()
	return 3, fails


BAD_SOURCES = [
	('stray-colon', b'def f(:\n\tpass\n'),
	('dedent-to-unopened-column', b'if a:\n    x = 1\n  y = 2\n'),
	('invalid-utf8', b'x = "\xff\xfe"\n'),
	('premature-eof', b'def f(a: int) -> int:\n\treturn (a +\n'),
	('nul-byte', b'x = 1\x00\n'),
	('unbalanced-bracket-in-decorator', b'@deco(a, [b)\ndef f() -> None:\n\tpass\n'),
]


def syntax_boundary_twin() -> tuple[int, list[dict]]:
	"""C07 boundary on disk: every unparsable source file makes the CLI report rogw.tranp.errors.Errors.* (never a raw exception)."""
	fails = []
	n = 0
	for name, data in BAD_SOURCES:
		p = Project()
		try:
			os.makedirs(os.path.join(p.dir, 'src'), exist_ok=True)
			with open(os.path.join(p.dir, 'src', 'bad.py'), 'wb') as f:
				f.write(data)
			r = p.run(force=True)
			n += 1
			import re
			text = (r.stdout + r.stderr).strip()
			heads = [ln for ln in text.splitlines() if re.match(r'^[A-Za-z_][\w\.]*: \(', ln)]  # '<exception class path>: (<args>' printed by ErrorRender
			last = heads[-1] if heads else (text.splitlines()[-1] if text else '')
			if not last.startswith('rogw.tranp.errors.Errors.'):
				fails.append({'case': name, 'source': repr(data), 'where': 'on-disk module through the CLI', 'last_line': last[:300]})
		finally:
			p.close()
	return n, fails
