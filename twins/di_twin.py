"""Bounded twin for C19: operation sequences on the real DI / LazyDI against the reference model of the statement.

Never counted as proved.  Used (1) to find a concrete failing history when a C19 obligation fails without a usable
counter-model (containers are abstract records in the VCs), (2) as an independent cross-check on every run.
"""
import itertools
import random
import sys
from typing import Any

sys.path.insert(0, '/repo')


class A: ...
class B: ...
class C: ...


from typing import Generic, TypeVar  # noqa: E402
_T = TypeVar('_T')


class G(Generic[_T]): ...


class Made:
	def __init__(self, by: str, deps: tuple = ()):
		self.by = by
		self.deps = deps


def f1() -> A: return Made('f1')  # type: ignore[return-value]
def f2() -> A: return Made('f2')  # type: ignore[return-value]
def g1() -> B: return Made('g1')  # type: ignore[return-value]
def g2(a: A) -> B: return Made('g2', (a,))  # type: ignore[return-value]
def h1() -> G[A]: return Made('h1')  # type: ignore[return-value]
def h2() -> G[A]: return Made('h2')  # type: ignore[return-value]


# 'GA' is a parameterised generic symbol: the container files it under its origin class (one more spelling of the same binding)
SYMS = {'A': A, 'B': B, 'GA': G[A]}
FACS = {'f1': f1, 'f2': f2, 'g1': g1, 'g2': g2, 'h1': h1, 'h2': h2}
FAC_FOR = {'A': ['f1', 'f2'], 'B': ['g1', 'g2'], 'GA': ['h1', 'h2']}
PATHS = {'A': f'{__name__}.A', 'B': f'{__name__}.B', 'GA': f'{__name__}.G'}


class Model:
	"""Reference model: bindings sym -> factory name, instances sym -> token (one per binding generation)."""

	def __init__(self) -> None:
		self.b: dict[str, str] = {}
		self.i: dict[str, Any] = {}

	def clone(self) -> 'Model':
		m = Model()
		m.b, m.i = dict(self.b), dict(self.i)
		return m

	def bind(self, s: str, f: str) -> str:
		if s in self.b:
			return 'ValueError'
		self.b[s] = f
		return 'ok'

	def unbind(self, s: str) -> str:
		self.b.pop(s, None)
		self.i.pop(s, None)
		return 'ok'

	def rebind(self, s: str, f: str) -> str:
		self.unbind(s)
		return self.bind(s, f)

	def can_resolve(self, s: str) -> str:
		return str(s in self.b)

	def resolve(self, s: str, counter: list[int]) -> Any:
		if s not in self.b:
			return 'ValueError'
		if s not in self.i:
			f = self.b[s]
			deps = ()
			if f == 'g2':
				d = self.resolve('A', counter)
				if d == 'ValueError':
					return 'ValueError'  # g2 needs A: invoke passes no argument -> first-call signature mismatch
				deps = (d,)
			counter[0] += 1
			self.i[s] = (f, counter[0], deps)
		return self.i[s]

	def combine(self, other: 'Model') -> 'Model':
		m = self.clone()
		for s, f in other.b.items():
			m.b[s] = f
			m.i.pop(s, None)  # the right operand's binding wins: the left operand's instance of s is not an instance of this binding
			if s in other.i:
				m.i[s] = other.i[s]
		return m


def new_real(lazy: bool, defs: dict[str, str]):
	from rogw.tranp.lang.di import DI, LazyDI
	if lazy:
		return LazyDI.instantiate({PATHS[s]: FACS[f] for s, f in defs.items()})
	d = DI()
	for s, f in defs.items():
		d.bind(SYMS[s], FACS[f])
	return d


def observe(obj: Any, ids: dict[int, int]) -> Any:
	if isinstance(obj, Made):
		return (obj.by, ids.setdefault(id(obj), len(ids) + 1), tuple(observe(d, ids) for d in obj.deps))
	return repr(obj)


def run_history(lazy: bool, ldefs: dict[str, str], rdefs: dict[str, str], ops: list[tuple]) -> tuple[bool, str]:
	"""ops act on containers 'L', 'R', and 'C' (= L.combine(R), created by ('combine',)).  Returns (agrees, description)."""
	real: dict[str, Any] = {'L': new_real(lazy, ldefs), 'R': new_real(lazy, rdefs)}
	model: dict[str, Model] = {'L': Model(), 'R': Model()}
	for s, f in ldefs.items():
		model['L'].bind(s, f)
	for s, f in rdefs.items():
		model['R'].bind(s, f)
	counter = [0]
	ids: dict[int, int] = {}
	mids: dict[int, int] = {}
	keep: list[Any] = []
	for k, op in enumerate(ops):
		name = op[0]
		if name == 'combine':
			real['C'] = real['L'].combine(real['R'])
			model['C'] = model['L'].combine(model['R'])
			continue
		tgt = op[1]
		if tgt not in real:
			continue
		try:
			if name == 'bind':
				real[tgt].bind(SYMS[op[2]], FACS[op[3]]); r = 'ok'
			elif name == 'rebind':
				real[tgt].rebind(SYMS[op[2]], FACS[op[3]]); r = 'ok'
			elif name == 'unbind':
				real[tgt].unbind(SYMS[op[2]]); r = 'ok'
			elif name == 'can_resolve':
				r = str(real[tgt].can_resolve(SYMS[op[2]]))
			elif name == 'resolve':
				o = real[tgt].resolve(SYMS[op[2]])
				keep.append(o)
				r = observe(o, ids)
			else:
				raise AssertionError(name)
		except ValueError:
			r = 'ValueError'
		except Exception as e:  # noqa: BLE001 - any other exception is an observable outcome (the statement allows ValueError only), not a fault of the twin
			r = type(e).__name__
		if name == 'bind' and lazy and op[2] in model[tgt].b:
			# bind on an already registered symbol of a LazyDI: the statement does not say (the by-name registration may be shadowed); follow the code
			if r == 'ok':
				model[tgt].b[op[2]] = op[3]
				model[tgt].i.pop(op[2], None)
			continue
		if name == 'bind':
			m = model[tgt].bind(op[2], op[3])
		elif name == 'rebind':
			m = model[tgt].rebind(op[2], op[3])
		elif name == 'unbind':
			m = model[tgt].unbind(op[2])
		elif name == 'can_resolve':
			m = model[tgt].can_resolve(op[2])
		else:
			mo = model[tgt].resolve(op[2], counter)
			m = mo if mo == 'ValueError' else norm_model(mo, mids)
		if r != m:
			return False, f'step {k} {op}: real {r!r} != reference {m!r}'
	return True, ''


def norm_model(tok: Any, mids: dict[int, int]) -> Any:
	f, n, deps = tok
	return (f, mids.setdefault(n, len(mids) + 1), tuple(norm_model(d, mids) for d in deps))


def op_alphabet(targets: list[str]) -> list[tuple]:
	ops: list[tuple] = [('combine',)]
	for t in targets:
		for s in SYMS:
			ops += [('resolve', t, s), ('can_resolve', t, s), ('unbind', t, s)]
			for f in FAC_FOR[s]:
				ops += [('bind', t, s, f), ('rebind', t, s, f)]
	return ops


def histories(max_len: int, rnd: random.Random, cap: int):
	"""Exhaustive for small setups up to cap, then random."""
	setups = []
	for l in [{}, {'A': 'f1'}, {'A': 'f1', 'B': 'g2'}]:
		for r in [{}, {'A': 'f2'}, {'B': 'g1'}]:
			setups.append((l, r))
	alpha = op_alphabet(['L', 'R', 'C'])
	n = 0
	for length in range(1, max_len + 1):
		for l, r in setups:
			for seq in itertools.product(alpha, repeat=length):
				if n >= cap:
					return
				if length > 2 and ('combine',) not in seq:
					continue
				n += 1
				yield l, r, list(seq)
	while n < cap:
		l, r = rnd.choice(setups)
		n += 1
		yield l, r, [rnd.choice(alpha) for _ in range(rnd.randint(3, 8))]


def search(lazy: bool, tier: str, seed: int, known_pred=None) -> tuple[int, list[dict[str, Any]]]:
	rnd = random.Random(seed)
	cap = 60000 if tier == 'quick' else 600000
	found: list[dict[str, Any]] = []
	n = 0
	for l, r, seq in histories(3 if tier == 'quick' else 4, rnd, cap):
		n += 1
		ok, why = run_history(lazy, l, r, seq)
		if not ok:
			found.append({'lazy': lazy, 'left': l, 'right': r, 'ops': [list(o) for o in seq], 'why': why})
			if len(found) >= 200:
				break
	return n, found


def classify(found: dict[str, Any]) -> str:
	"""Name of the known pattern a mismatching history is an instance of ('' = none).

	lazy-combine-left-materialised: LazyDI only; at combine time the left operand holds a *materialised* binding (it bound the
	symbol directly or resolved it) for a symbol that the right operand registers by name only and has not materialised; the
	mismatch is observed on the combined container.  (The eager half -- a left *instance* surviving a right re-binding -- was
	repaired in DI.combine.)"""
	if not found['lazy']:
		return ''
	lmat: set[str] = set()
	rmat: set[str] = set()
	ldef = set(found['left'])
	rdef = set(found['right'])
	combined = False
	hit = False
	for op in found['ops']:
		name = op[0]
		if name == 'combine':
			combined = True
			hit = any(s in lmat and s in rdef and s not in rmat for s in SYMS)
			continue
		tgt, sym = op[1], op[2]
		mat, defs = (lmat, ldef) if tgt == 'L' else (rmat, rdef)
		if tgt == 'C':
			continue
		if name in ('bind', 'rebind'):
			mat.add(sym); defs.add(sym)
		elif name == 'unbind':
			mat.discard(sym); defs.discard(sym)
		elif name == 'resolve' and sym in defs:
			mat.add(sym)
			if sym == 'B' and 'A' in defs:
				mat.add('A')  # g2 pulls A in
	return 'lazy-combine-left-materialised' if combined and hit and ' \'C\'' in found['why'] else ''
