"""Worker for the C04 twin (Python 3.13, cwd = a scratch project): builds the application exactly as bin/transpile.py does
(TranspileApp.definitions), then runs a history of load / transpile / unload operations in this one process and prints the text
of every transpile as JSON.  A fresh process with a single operation is the reference."""
import json
import os
import sys

REPO = os.environ.get('PYVC_REPO', '/repo')
sys.path.insert(0, REPO)

from rogw.tranp.app.app import App  # noqa: E402
from rogw.tranp.bin.transpile import Args, TranspileApp  # noqa: E402
from rogw.tranp.module.modules import Modules  # noqa: E402
from rogw.tranp.transpiler.types import ITranspiler  # noqa: E402


def main():
	ops = json.loads(sys.argv[1])
	app = App(TranspileApp.definitions(Args(['-c', 'config.yml'])))
	provider = None
	if any(op == 'submit' for op, _ in ops):
		# the wiring of the interactive mode (bin/transpile.py Interactive.__init__): in-memory main module, dummy meta factory
		from rogw.tranp.app.dummy import WrapSourceProvider, make_dummy_module_meta_factory
		from rogw.tranp.data.meta.types import ModuleMetaFactory
		from rogw.tranp.lang.locator import Locator
		from rogw.tranp.syntax.ast.parser import SourceProvider
		di = app.resolve(Locator)
		di.rebind(SourceProvider, WrapSourceProvider)
		di.rebind(ModuleMetaFactory, make_dummy_module_meta_factory)
		provider = app.resolve(SourceProvider)
	modules = app.resolve(Modules)
	transpiler = app.resolve(ITranspiler)
	out = []
	for op, m in ops:
		try:
			if op == 'transpile':
				out.append({'op': op, 'module': m, 'text': transpiler.transpile(modules.load(m).entrypoint)})
			elif op == 'load':
				modules.load(m)
				out.append({'op': op, 'module': m})
			elif op == 'unload':
				modules.unload(m)
				out.append({'op': op, 'module': m})
			elif op == 'submit':
				# one prompt of the interactive mode: Interactive.rebuild_module + transpile
				provider.source_code = m
				modules.unload(provider.main_module_path)
				out.append({'op': op, 'module': provider.main_module_path, 'text': transpiler.transpile(modules.load(provider.main_module_path).entrypoint)})
		except Exception as e:  # noqa: BLE001
			out.append({'op': op, 'module': m, 'error': f'{type(e).__name__}: {str(e)[:200]}'})
	print('RESULT ' + json.dumps(out))


if __name__ == '__main__':
	main()
