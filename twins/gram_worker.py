"""Worker for the C12 twin: runs under Python 3.13 (the grammar engine does not run under the 3.12 harness), prints one JSON
object.  Real code throughout: SyntaxParser, Rules.from_ast, Rules.pretty, gram_check.App.render_rules, the shipped grammar
and rule files."""
import json
import os
import random
import sys
import time

REPO = os.environ.get('PYVC_REPO', '/repo')
sys.path.insert(0, REPO)
os.chdir(REPO)

from data.syntax.gram_rules import gram_rules  # noqa: E402
from data.syntax.gram_tokenizer import gram_tokenizer  # noqa: E402
from data.syntax.py_rules import py_rules  # noqa: E402
from rogw.tranp.bin.gram_check import App, Args  # noqa: E402
from rogw.tranp.implements.syntax.tranp.rule import Pattern, Patterns, Rules  # noqa: E402
from rogw.tranp.implements.syntax.tranp.syntax import SyntaxParser  # noqa: E402


def struct(e):
	"""Structural value of a pattern entry / rule set (the classes define no equality of their own)."""
	if isinstance(e, Pattern):
		return ('P', e.expression, e.role.name, e.comp.name)
	if isinstance(e, Patterns):
		return ('G', e.op.name, e.rep.name, [struct(x) for x in e.entries])
	if isinstance(e, Rules):
		return [(k, struct(e._rules[k])) for k in e.org_symbols()]
	raise TypeError(type(e))


def parse_grammar(text):
	return SyntaxParser(gram_rules(), gram_tokenizer()).parse(text, 'entry')


def compile_text(text, name):
	"""The rule module text gram_check writes for a grammar text."""
	app = App(Args(['-i', 'x.lark', '-o', f'{name}.py']))
	return app.render_rules(parse_grammar(text))


def code_of(module_text):
	"""The module as code: its AST without docstrings (gram_rules.py carries a hand-written docstring)."""
	import ast
	tree = ast.parse(module_text)
	for n in ast.walk(tree):
		if isinstance(n, (ast.FunctionDef, ast.ClassDef, ast.Module)) and n.body and isinstance(n.body[0], ast.Expr) and isinstance(n.body[0].value, ast.Constant) and isinstance(n.body[0].value.value, str):
			n.body = n.body[1:]
	return ast.dump(tree)


def load_rules(module_text, name):
	ns = {}
	exec(compile(module_text, f'<{name}>', 'exec'), ns)
	return ns[name]()


# ---------------------------------------------------------------- generated grammars
NAMES = ['a', 'b', 'c', 'item', 'x_1', 'Z']
STRS = ['"+"', '"if"', '"("', '"\\n"', '"\\t"', '"=="', '"a b"', '"[]"', '"|"', '"/"', '"\\\\"', '":="']
REGS = ['/[a-z]+/', '/\\d+/', '/a|b/', '/x\\/y/', '/\\//', '/[()]/', '/"/', '/ +/', '/a\\/b\\//']


def gen_expr(rng, syms, depth):
	def term(d):
		k = rng.random()
		if d <= 0 or k < 0.45:
			return rng.choice(syms) if rng.random() < 0.55 else (rng.choice(STRS) if rng.random() < 0.6 else rng.choice(REGS))
		if k < 0.6:
			return '[' + expr(d - 1) + ']'
		if k < 0.9:
			return '(' + expr(d - 1) + ')' + rng.choice(['*', '+', '?'])
		return '(' + expr(d - 1) + ')'

	def terms(d):
		return ' '.join(term(d) for _ in range(rng.randint(1, 3)))

	def expr(d):
		return ' | '.join(terms(d) for _ in range(rng.choice([1, 1, 1, 2, 3])))
	return expr(depth)


def gen_grammar(rng):
	n = rng.randint(1, 4)
	syms = rng.sample(NAMES, n)
	lines = []
	for s in syms:
		uw = rng.choice(['', '', '[1]', '[*]'])
		lines.append(f'{s}{uw} := {gen_expr(rng, syms, rng.randint(0, 3))}')
	return '\n'.join(lines) + '\n'


def sentences(rng, rules, start, n, max_depth=6):
	"""Random sentences derivable from the rule set (token texts joined by spaces); regexp terminals get a fixed sample."""
	import re
	samples = {'[a-z]+': 'q', '\\d+': '7', 'a|b': 'a', 'x\\/y': 'x/y', '\\/': '/', '[()]': '(', '"': '"', ' +': ' ', 'a\\/b\\/': 'a/b/'}
	out = []

	def gen(e, d):
		if isinstance(e, Pattern):
			if e.role.name == 'Symbol':
				if d <= 0:
					raise RecursionError
				return gen(rules[e.expression], d - 1)
			if e.comp.name == 'Regexp':
				return [samples[e.expression]]
			return [e.expression]
		reps = {'NoRepeat': [1], 'OneOrEmpty': [0, 1], 'OneOrZero': [0, 1], 'OverZero': [0, 1, 2], 'OverOne': [1, 2]}[e.rep.name]
		toks = []
		for _ in range(rng.choice(reps)):
			if e.op.name == 'Or':
				toks += gen(rng.choice(e.entries), d)
			else:
				for x in e.entries:
					toks += gen(x, d)
		return toks
	for _ in range(n * 4):
		if len(out) >= n:
			break
		try:
			t = gen(rules[start], max_depth)
		except (RecursionError, KeyError):
			continue
		if t and all(x.strip() and '\n' not in x for x in t):
			out.append(' '.join(t))
	return out


class Timeout(Exception):
	pass


def _alarm(signum, frame):
	raise Timeout()


def limited(seconds, f, *a):
	"""f(*a) under a wall-clock limit (the engine can backtrack for a very long time on ambiguous generated grammars)."""
	import signal
	signal.signal(signal.SIGALRM, _alarm)
	signal.alarm(seconds)
	try:
		return f(*a)
	finally:
		signal.alarm(0)


def tree_of(rules, text, start):
	try:
		return ('tree', json.dumps(limited(2, lambda: SyntaxParser(rules).parse(text, start).simplify())))
	except Timeout:
		return ('timeout', '')
	except Exception as e:  # noqa: BLE001
		return ('error', type(e).__name__)


def main():
	tier, seed = sys.argv[1], int(sys.argv[2])
	out = {'closed': [], 'fails': [], 'cases': 0, 'sentences': 0}
	# ---- closed obligations (no quantifier): decided by evaluation
	gram_text = open(f'{REPO}/data/syntax/gram.lark', 'rb').read().decode('utf-8')
	a = struct(Rules.from_ast(parse_grammar(gram_text).simplify()))
	b = struct(gram_rules())
	out['closed'].append({'name': 'parsing data/syntax/gram.lark with the built-in rules yields the built-in rules', 'ok': a == b,
		'detail': '' if a == b else f'first difference: {next((x, y) for x, y in zip(a, b) if x != y) if len(a) == len(b) else (len(a), len(b))}'})
	for lark, mod in (('gram.lark', 'gram_rules'), ('py_gram.lark', 'py_rules')):
		text = open(f'{REPO}/data/syntax/{lark}', 'rb').read().decode('utf-8')
		want = open(f'{REPO}/data/syntax/{mod}.py', 'rb').read().decode('utf-8')
		got = compile_text(text, mod)
		ok = code_of(got) == code_of(want)
		d = ''
		if not ok:
			i = next((i for i, (x, y) in enumerate(zip(got, want)) if x != y), min(len(got), len(want)))
			d = f'first difference at offset {i}: generated {got[max(0, i - 30):i + 30]!r} vs checked in {want[max(0, i - 30):i + 30]!r}'
		out['closed'].append({'name': f'compiling data/syntax/{lark} yields the rule module data/syntax/{mod}.py (same Python code; docstrings aside)', 'ok': ok, 'detail': d})
	# ---- print/parse round trip: shipped rule sets and generated grammars
	rng = random.Random(12_000 + seed)
	pool = [('gram_rules()', gram_rules(), None), ('py_rules()', py_rules(), None)]
	n_gen = 40 if tier == 'quick' else 400
	t0 = time.time()
	for i in range(n_gen):
		text = gen_grammar(rng)
		try:
			g = limited(5, lambda: Rules.from_ast(parse_grammar(text).simplify()))
		except (Exception, Timeout) as e:  # noqa: BLE001 - a generated text the meta-grammar refuses is not a case
			continue
		pool.append((text, g, text))
	for label, g, text in pool:
		out['cases'] += 1
		printed = g.pretty() + '\n'
		try:
			g2 = limited(30, lambda: Rules.from_ast(parse_grammar(printed).simplify()))
		except Timeout:
			out['skipped'] = out.get('skipped', 0) + 1
			continue
		except Exception as e:  # noqa: BLE001
			out['fails'].append({'what': f'the printout of a rule set does not parse: {type(e).__name__}: {str(e)[:80]}', 'grammar': label, 'printed': printed[:400]})
			continue
		if struct(g2) != struct(g):
			diff = next(((x, y) for x, y in zip(struct(g), struct(g2)) if x != y), None)
			out['fails'].append({'what': f'from_ast(parse(pretty(g))) != g: rule {diff[0][0] if diff else "?"} reads back as {json.dumps(diff[1][1])[:160] if diff else "?"}, was {json.dumps(diff[0][1])[:160] if diff else "?"}', 'grammar': label, 'printed': printed[:400]})
			continue
		if text is None:
			continue
		# compiled rules accept the same sentences with the same trees
		try:
			compiled = load_rules(compile_text(text, 'gen_rules'), 'gen_rules')
		except Exception as e:  # noqa: BLE001
			out['fails'].append({'what': f'the compiled rule module of a grammar cannot be loaded: {type(e).__name__}: {str(e)[:80]}', 'grammar': label})
			continue
		if struct(compiled) != struct(g):
			out['fails'].append({'what': 'compiled rules differ from the rules read from the grammar text', 'grammar': label})
			continue
		start = next(iter(g.keys()))
		for s in sentences(rng, g, start, 3):
			r1 = tree_of(g, s, start)
			if r1[0] == 'timeout':
				out['skipped'] = out.get('skipped', 0) + 1
				break
			r2 = tree_of(compiled, s, start)
			if r2[0] == 'timeout':
				out['skipped'] = out.get('skipped', 0) + 1
				break
			out['sentences'] += 1
			if r1 != r2:
				out['fails'].append({'what': f'compiled and original rules disagree on sentence {s!r}: {r2[:2]} vs {r1[:2]}', 'grammar': label})
				break
	out['seconds'] = round(time.time() - t0, 1)
	print(json.dumps(out))


if __name__ == '__main__':
	main()
