"""Worker for the C12 twin: runs under Python 3.13 (the grammar engine does not run under the 3.12 harness), prints one JSON
object.  Real code throughout: SyntaxParser, Rules.from_ast, Rules.pretty, gram_check.App.render_rules, the shipped grammar
and rule files."""
import json
import os
import random
import sys
import time

REPO = os.environ.get('PYVC_REPO', '/repo')
sys.path.insert(0, REPO)
os.chdir(REPO)

from data.syntax.gram_rules import gram_rules  # noqa: E402
from data.syntax.gram_tokenizer import gram_tokenizer  # noqa: E402
from data.syntax.py_rules import py_rules  # noqa: E402
from rogw.tranp.bin.gram_check import App, Args  # noqa: E402
from rogw.tranp.implements.syntax.tranp.rule import Pattern, Patterns, Rules  # noqa: E402
from rogw.tranp.implements.syntax.tranp.syntax import SyntaxParser  # noqa: E402


def struct(e):
	"""Structural value of a pattern entry / rule set (the classes define no equality of their own)."""
	if isinstance(e, Pattern):
		return ('P', e.expression, e.role.name, e.comp.name)
	if isinstance(e, Patterns):
		return ('G', e.op.name, e.rep.name, [struct(x) for x in e.entries])
	if isinstance(e, Rules):
		return [(k, struct(e._rules[k])) for k in e.org_symbols()]
	raise TypeError(type(e))


def parse_grammar(text):
	return SyntaxParser(gram_rules(), gram_tokenizer()).parse(text, 'entry')


def compile_text(text, name):
	"""The rule module text gram_check writes for a grammar text."""
	app = App(Args(['-i', 'x.lark', '-o', f'{name}.py']))
	return app.render_rules(parse_grammar(text))


def load_rules(module_text, name):
	ns = {}
	exec(compile(module_text, f'<{name}>', 'exec'), ns)
	return ns[name]()


# ---------------------------------------------------------------- generated grammars
NAMES = ['a', 'b', 'c', 'item', 'x_1', 'Z']
STRS = ['"+"', '"if"', '"("', '"\\n"', '"\\t"', '"=="', '"a b"', '"[]"', '"|"', '"/"', '"\\\\"', '":="']
REGS = ['/[a-z]+/', '/\\d+/', '/a|b/', '/x\\/y/', '/\\//', '/[()]/', '/"/', '/ +/', '/a\\/b\\//']


def gen_expr(rng, syms, depth):
	def term(d):
		k = rng.random()
		if d <= 0 or k < 0.45:
			return rng.choice(syms) if rng.random() < 0.55 else (rng.choice(STRS) if rng.random() < 0.6 else rng.choice(REGS))
		if k < 0.6:
			return '[' + expr(d - 1) + ']'
		if k < 0.9:
			return '(' + expr(d - 1) + ')' + rng.choice(['*', '+', '?'])
		return '(' + expr(d - 1) + ')'

	def terms(d):
		return ' '.join(term(d) for _ in range(rng.randint(1, 3)))

	def expr(d):
		return ' | '.join(terms(d) for _ in range(rng.choice([1, 1, 1, 2, 3])))
	return expr(depth)


def gen_grammar(rng):
	n = rng.randint(1, 4)
	syms = rng.sample(NAMES, n)
	lines = []
	for s in syms:
		uw = rng.choice(['', '', '[1]', '[*]'])
		lines.append(f'{s}{uw} := {gen_expr(rng, syms, rng.randint(0, 3))}')
	return '\n'.join(lines) + '\n'


def sentences(rng, rules, start, n, max_depth=6):
	"""Random sentences derivable from the rule set (token texts joined by spaces); regexp terminals get a fixed sample."""
	import re
	samples = {'[a-z]+': 'q', '\\d+': '7', 'a|b': 'a', 'x\\/y': 'x/y', '\\/': '/', '[()]': '(', '"': '"', ' +': ' ', 'a\\/b\\/': 'a/b/'}
	out = []

	def gen(e, d):
		if isinstance(e, Pattern):
			if e.role.name == 'Symbol':
				if d <= 0:
					raise RecursionError
				return gen(rules[e.expression], d - 1)
			if e.comp.name == 'Regexp':
				return [samples[e.expression]]
			return [e.expression]
		reps = {'NoRepeat': [1], 'OneOrEmpty': [0, 1], 'OneOrZero': [0, 1], 'OverZero': [0, 1, 2], 'OverOne': [1, 2]}[e.rep.name]
		toks = []
		for _ in range(rng.choice(reps)):
			if e.op.name == 'Or':
				toks += gen(rng.choice(e.entries), d)
			else:
				for x in e.entries:
					toks += gen(x, d)
		return toks
	for _ in range(n * 4):
		if len(out) >= n:
			break
		try:
			t = gen(rules[start], max_depth)
		except (RecursionError, KeyError):
			continue
		if t and all(x.strip() and '\n' not in x for x in t):
			out.append(' '.join(t))
	return out


def tree_of(rules, text, start):
	try:
		return ('tree', json.dumps(SyntaxParser(rules).parse(text, start).simplify()))
	except Exception as e:  # noqa: BLE001
		return ('error', type(e).__name__)


def main():
	tier, seed = sys.argv[1], int(sys.argv[2])
	out = {'closed': [], 'fails': [], 'cases': 0, 'sentences': 0}
	# ---- closed obligations (no quantifier): decided by evaluation
	gram_text = open(f'{REPO}/data/syntax/gram.lark', 'rb').read().decode('utf-8')
	a = struct(Rules.from_ast(parse_grammar(gram_text).simplify()))
	b = struct(gram_rules())
	out['closed'].append({'name': 'parsing data/syntax/gram.lark with the built-in rules yields the built-in rules', 'ok': a == b,
		'detail': '' if a == b else f'first difference: {next((x, y) for x, y in zip(a, b) if x != y) if len(a) == len(b) else (len(a), len(b))}'})
	for lark, mod in (('gram.lark', 'gram_rules'), ('py_gram.lark', 'py_rules')):
		text = open(f'{REPO}/data/syntax/{lark}', 'rb').read().decode('utf-8')
		want = open(f'{REPO}/data/syntax/{mod}.py', 'rb').read().decode('utf-8')
		got = compile_text(text, mod)
		ok = got == want
		d = ''
		if not ok:
			i = next((i for i, (x, y) in enumerate(zip(got, want)) if x != y), min(len(got), len(want)))
			d = f'first difference at offset {i}: generated {got[max(0, i - 30):i + 30]!r} vs checked in {want[max(0, i - 30):i + 30]!r}'
		out['closed'].append({'name': f'compiling data/syntax/{lark} yields data/syntax/{mod}.py byte for byte', 'ok': ok, 'detail': d})
	# ---- print/parse round trip: shipped rule sets and generated grammars
	rng = random.Random(12_000 + seed)
	pool = [('gram_rules()', gram_rules(), None), ('py_rules()', py_rules(), None)]
	n_gen = 40 if tier == 'quick' else 400
	t0 = time.time()
	for i in range(n_gen):
		text = gen_grammar(rng)
		try:
			g = Rules.from_ast(parse_grammar(text).simplify())
		except Exception as e:  # noqa: BLE001 - a generated text the meta-grammar refuses is not a case
			continue
		pool.append((text, g, text))
	for label, g, text in pool:
		out['cases'] += 1
		printed = g.pretty() + '\n'
		try:
			g2 = Rules.from_ast(parse_grammar(printed).simplify())
		except Exception as e:  # noqa: BLE001
			out['fails'].append({'what': f'the printout of a rule set does not parse: {type(e).__name__}: {str(e)[:80]}', 'grammar': label, 'printed': printed[:400]})
			continue
		if struct(g2) != struct(g):
			diff = next(((x, y) for x, y in zip(struct(g), struct(g2)) if x != y), None)
			out['fails'].append({'what': f'from_ast(parse(pretty(g))) != g: rule {diff[0][0] if diff else "?"} reads back as {json.dumps(diff[1][1])[:160] if diff else "?"}, was {json.dumps(diff[0][1])[:160] if diff else "?"}', 'grammar': label, 'printed': printed[:400]})
			continue
		if text is None:
			continue
		# compiled rules accept the same sentences with the same trees
		try:
			compiled = load_rules(compile_text(text, 'gen_rules'), 'gen_rules')
		except Exception as e:  # noqa: BLE001
			out['fails'].append({'what': f'the compiled rule module of a grammar cannot be loaded: {type(e).__name__}: {str(e)[:80]}', 'grammar': label})
			continue
		if struct(compiled) != struct(g):
			out['fails'].append({'what': 'compiled rules differ from the rules read from the grammar text', 'grammar': label})
			continue
		start = next(iter(g.keys()))
		for s in sentences(rng, g, start, 3):
			out['sentences'] += 1
			r1, r2 = tree_of(g, s, start), tree_of(compiled, s, start)
			if r1 != r2:
				out['fails'].append({'what': f'compiled and original rules disagree on sentence {s!r}: {r2[:2]} vs {r1[:2]}', 'grammar': label})
				break
	out['seconds'] = round(time.time() - t0, 1)
	print(json.dumps(out))


if __name__ == '__main__':
	main()
