"""Bounded twin for C07: one interactive-style session (the statements of Interactive.rebuild_module: set the source, unload the main module,
load it again) fed with a history of well-formed, ill-typed and unparsable inputs.  Every input must either load or be reported as a
rogw.tranp.errors.Errors.* error; no other exception may escape, whatever came before.  Real Modules / SymbolDB / parser (3.12: no C++ back end)."""
import os
import random
import sys

REPO = os.environ.get('PYVC_REPO', '/repo')

GOOD = ['a = 1\n', 'def f(n: int) -> int:\n\treturn n + 1\n', 'class A:\n\tdef m(self) -> str:\n\t\treturn "s"\n', 'x: int = 1\ny = x\n', 'c: int = 2\n', 'class A:\n\tn: int\n', 'class P:\n\tn: int\n\ts: str\n\n\tdef m(self) -> int:\n\t\treturn self.n\n']
# accepted by the grammar, refused later (unknown names, missing annotations, literals no node class matches)
ILL = ['b: int = 1\na: Foo = 1\n', 'def f(a) -> None: ...\n', 'a = 0b101\n', 'a = 0o17\n', 'a = 1j\n', 'x = undefined_name\n', 'from no.such.module import q\n', 'class B(NoBase): ...\n',
	'def g() -> int:\n\treturn h()\n', 'a = 1\na: str = 2\nb = a.nope\n', 'class A: ...\nx: A.B = 1\n', 'def f(a: int.foo) -> None: ...\n', 'class A:\n\tclass B: ...\ny: A.C = 1\n']
BAD = ['def f(:\n\tpass\n', 'x = (1\n', 'if a:\nb = 1\n', 'x = "unterminated\n']


def run(tier: str, seed: int = 0):
	cwd = os.getcwd()
	os.chdir(REPO)
	if REPO not in sys.path:
		sys.path.insert(0, REPO)
	try:
		from tests.test.fixture import Fixture
		from rogw.tranp.errors import Errors
		rnd = random.Random(7_000 + seed)
		fails, n = [], 0
		n_hist = 6 if tier == 'quick' else 40
		for h in range(n_hist):
			fx = Fixture.make(f'{REPO}/tests/unit/rogw/tranp/semantics/test_reflections.py')
			hist = []
			sweep = None
			if h == 0:
				# the first session goes through every input once (shuffled): each input class is exercised on every run
				sweep = GOOD + ILL + BAD
				rnd.shuffle(sweep)
			for step in range(len(sweep) if sweep else rnd.randint(3, 6)):
				src = sweep[step] if sweep else rnd.choice(ILL if rnd.random() < 0.5 else (GOOD if rnd.random() < 0.7 else BAD))
				hist.append(src)
				n += 1
				try:
					fx.custom_module(src)
				except Errors.Error:
					pass
				except Exception as e:  # noqa: BLE001
					fails.append({'history': list(hist), 'what': f'input #{len(hist)} of a session escapes as {type(e).__module__}.{type(e).__qualname__}: {str(e)[:100]} instead of a tranp error'})
					break
			if len(fails) >= 3:
				break
		return n, fails
	finally:
		os.chdir(cwd)
		import shutil
		shutil.rmtree(os.path.join(REPO, '.cache'), ignore_errors=True)


if __name__ == '__main__':
	n, fails = run(sys.argv[1] if len(sys.argv) > 1 else 'quick', int(sys.argv[2]) if len(sys.argv) > 2 else 0)
	print(n, 'inputs', len(fails), 'failures')
	for f in fails[:3]:
		print(' ', f['what'][:200], f['history'][-2:])
