"""Bounded twin for C08 (and C01's "never rejected"): name resolution must depend on binding structure, not on how node ids
happen to be spelled.  Sibling blocks each declare their own loop variable; every one of them must be collected."""
import os
import sys

REPO = os.environ.get('PYVC_REPO', '/repo')


def run(tier: str):
	cwd = os.getcwd()
	os.chdir(REPO)
	if REPO not in sys.path:
		sys.path.insert(0, REPO)
	try:
		from tests.test.fixture import Fixture
		import rogw.tranp.syntax.node.definition as defs
		fx = Fixture.make(f'{REPO}/tests/unit/rogw/tranp/semantics/test_reflections.py')
		fails = []
		n = 0
		shapes = {
			'for': lambda v: f'\tfor {v} in range(n):\n\t\tpass\n',
			'for-other-name': lambda v: f'\tfor {v}{v} in range(n):\n\t\tpass\n',
			'while-assign': lambda v: f'\twhile n > 0:\n\t\t{v} = n\n',
			'if-assign': lambda v: f'\tif n > 0:\n\t\t{v} = n\n',
		}
		for shape, mk in shapes.items():
			for k in range(1, (18 if tier == 'quick' else 40)):
				src = 'def f(n: int) -> None:\n' + ''.join(mk('i') for _ in range(k))
				fn = [x for x in fx.custom_module(src).entrypoint.statements if isinstance(x, defs.Function)][0]
				got = len(fn.decl_vars)
				n += 1
				if got != k + 1:
					fails.append({'shape': shape, 'blocks': k, 'declared_vars': got, 'expected': k + 1, 'names': [d.fullyname for d in fn.decl_vars][-4:]})
					break
		return n, fails
	finally:
		os.chdir(cwd)
		import shutil
		shutil.rmtree(os.path.join(REPO, '.cache'), ignore_errors=True)
