"""Bounded twin for C14: export a module's symbols, import them into a table that holds only the other modules, compare
symbol by symbol.  Real code throughout (SymbolDB.to_json / import_json, the registered ReflectionSerializer); the table of
the test fixture application (real library modules) plus generated modules.  Never counted as proved."""
import json
import os
import random
import sys

REPO = os.environ.get('PYVC_REPO', '/repo')


def describe(sym, depth=0):
	"""Type description of a symbol: its type's full name and, recursively, its type arguments."""
	if depth > 12:
		return ('...',)
	return (sym.types.fullyname, tuple(describe(a, depth + 1) for a in sym.attrs))


def node_id(n):
	return (n.module_path, n.full_path)


def refs_of(row):
	r = list(row['attrs'].values())
	if row['class'] == 'Reflection':
		r += [row['origin'], row['via']]
	return r


def check_module(db, ser, mp, SymbolDB, ModuleDSN, label):
	"""-> list of failure dicts for module `mp` of table `db`."""
	fails = []
	data = db.to_json(ser, mp)
	data = json.loads(json.dumps(data))  # the stored form is JSON text (key order is preserved)
	keys = list(data.keys())
	own = [k for k in db.keys() if ModuleDSN.parsed(k)[0] == mp]
	if sorted(keys) != sorted(own):
		fails.append({'what': f'export of {mp} does not hold exactly its symbols', 'missing': sorted(set(own) - set(keys))[:3], 'extra': sorted(set(keys) - set(own))[:3], 'program': label})
	for i, k in enumerate(keys):
		for r in refs_of(data[k]):
			if ModuleDSN.parsed(r)[0] == mp and r not in keys[:i]:
				fails.append({'what': f'export order: row {k} (position {i}) refers to {r}, which is {"at position " + str(keys.index(r)) if r in keys else "not exported"}', 'program': label})
				break
	new = SymbolDB()
	for k, v in db.items():
		if ModuleDSN.parsed(k)[0] != mp:
			new[k] = v
	try:
		new.import_json(ser, data)
	except Exception as e:  # noqa: BLE001
		fails.append({'what': f'import of the exported rows of {mp} fails: {type(e).__name__}: {str(e)[:80]}', 'program': label})
		return fails, len(keys)
	if not new.completed(mp):
		fails.append({'what': f'{mp} does not count as completed after import', 'program': label})
	if len(new) != len(db):
		fails.append({'what': f'table size {len(new)} after import, {len(db)} before export', 'program': label})
	for k in own:
		if k not in new:
			fails.append({'what': f'{k} missing after import', 'program': label})
			continue
		a, b = db[k], new[k]
		if describe(a) != describe(b):
			fails.append({'what': f'{k}: type description {describe(b)} after import, {describe(a)} before', 'program': label})
		elif node_id(a.node) != node_id(b.node) or node_id(a.decl) != node_id(b.decl):
			fails.append({'what': f'{k}: node/decl {node_id(b.node)}/{node_id(b.decl)} after import, {node_id(a.node)}/{node_id(a.decl)} before', 'program': label})
		elif not (a == b):
			fails.append({'what': f'{k}: symbols differ after import', 'program': label})
	before = {k: describe(new[k]) for k in new.keys()}
	try:
		new.import_json(ser, data)
	except Exception as e:  # noqa: BLE001
		fails.append({'what': f'second import of the same rows fails: {type(e).__name__}: {str(e)[:80]}', 'program': label})
		return fails, len(keys)
	after = {k: describe(new[k]) for k in new.keys()}
	if before != after:
		fails.append({'what': 'importing the same data twice changes the table', 'program': label})
	return fails, len(keys)


TYPES0 = ['int', 'str', 'bool', 'float']


def gen_type(rng, classes, generics, depth):
	"""A type expression over the builtins and the module's own (possibly generic) classes."""
	if depth <= 0 or rng.random() < 0.35:
		return rng.choice(TYPES0 + classes) if classes else rng.choice(TYPES0)
	k = rng.random()
	if k < 0.3:
		return f'list[{gen_type(rng, classes, generics, depth - 1)}]'
	if k < 0.55:
		return f'dict[str, {gen_type(rng, classes, generics, depth - 1)}]'
	if k < 0.7:
		return f'tuple[{gen_type(rng, classes, generics, depth - 1)}, {gen_type(rng, classes, generics, depth - 1)}]'
	if k < 0.8:
		return f'{gen_type(rng, classes, generics, depth - 1)} | None'
	if generics:
		g, n = rng.choice(generics)
		return f'{g}[{", ".join(gen_type(rng, classes, generics, depth - 1) for _ in range(n))}]'
	return rng.choice(TYPES0)


def gen_program(rng):
	"""A module of plain and generic classes, functions with up to 12 typed parameters, nested type arguments up to depth 4,
	declarations in shuffled order (later classes are referred to through string annotations)."""
	n_cls = rng.randint(1, 4)
	tvs = [f'T{i}' for i in range(rng.randint(0, 2))]
	classes, generics, blocks = [], [], []
	for i in range(n_cls):
		name = f'C{i}'
		if tvs and rng.random() < 0.5:
			use = tvs[:rng.randint(1, len(tvs))]
			generics.append((name, len(use)))
			blocks.append(('cls', name, use))
		else:
			classes.append(name)
			blocks.append(('cls', name, []))
	out = ['from typing import Generic, TypeVar', '']
	decl = [('tv', t, []) for t in tvs] + blocks + [('fn', f'f{i}', []) for i in range(rng.randint(0, 3))]
	rng.shuffle(decl)
	for kind, name, use in decl:
		if kind == 'tv':
			out += [f"{name} = TypeVar('{name}')", '']
		elif kind == 'cls':
			out += [f'class {name}({"Generic[" + ", ".join(use) + "]" if use else ""}):' if use else f'class {name}:']
			for m in range(rng.randint(1, 3)):
				nparam = rng.choice([0, 1, 2, 3, 12])
				ps = ''.join(f", p{j}: '{gen_type(rng, classes + use, generics, rng.randint(0, 3))}'" for j in range(nparam))
				out += [f"\tdef m{m}(self{ps}) -> '{gen_type(rng, classes + use, generics, rng.randint(0, 4))}': ...", '']
		else:
			nparam = rng.choice([0, 1, 2, 11])
			ps = ', '.join(f"p{j}: '{gen_type(rng, classes, generics, rng.randint(0, 3))}'" for j in range(nparam))
			out += [f"def {name}({ps}) -> '{gen_type(rng, classes, generics, rng.randint(0, 4))}': ...", '']
	return '\n'.join(out)


FIXED = [
	# a generic class used (with arguments) before its own declaration and before its type variable
	"from typing import Generic, TypeVar\n\nclass A:\n\tdef f(self) -> 'B[int]': ...\n\nT = TypeVar('T')\n\nclass B(Generic[T]):\n\tdef g(self, t: T) -> T: ...\n",
	"from typing import Generic, TypeVar\n\nT = TypeVar('T')\n\nclass B(Generic[T]):\n\tdef g(self, t: T) -> T: ...\n\nclass A:\n\tdef f(self) -> B[int]: ...\n",
	# a generic class that is already listed when it is used again with a later-declared class as its argument
	"from typing import Generic, TypeVar\n\nT = TypeVar('T')\n\nclass Box(Generic[T]):\n\tdef get(self) -> T: ...\n\nclass User:\n\tdef a(self, b: 'Box[int]') -> None: ...\n\tdef b(self, b: 'Box[Late]') -> 'dict[str, Box[list[Later]]]': ...\n\nclass Late: ...\n\nclass Later: ...\n",
	"class N:\n\tdef kids(self) -> 'list[N]': ...\n\tdef table(self) -> 'dict[str, dict[str, list[tuple[N, int]]]]': ...\n",
]


MULTI = [
	# an importing module whose symbols are imports of classes, functions and typed module-level variables of another module; a facade whose every symbol is an import
	{'lib2.conf': "class Item:\n\tdef size(self) -> int: ...\n\nregistry: dict[str, list[Item]] = {}\nlimits: list[int] = [1, 2]\nname: str = 'n'\n\ndef factory() -> Item: ...\n",
	 'lib2.use': "from lib2.conf import Item, factory, limits, name, registry\n\ndef f() -> None:\n\ta = registry\n\tb = limits\n\tc = factory()\n\td = name\n",
	 'lib2.facade': "from lib2.conf import Item, factory, registry\n"},
	{'pk.core': "from typing import Generic, TypeVar\n\nT = TypeVar('T')\n\nclass Box(Generic[T]):\n\tdef get(self) -> T: ...\n\nshared: dict[str, Box[list[int]]] = {}\npairs: list[tuple[int, str]] = []\n",
	 'pk.app': "from pk.core import Box, pairs, shared\n\nclass User:\n\tdef m(self, b: 'Box[int]') -> 'dict[str, Box[list[int]]]':\n\t\treturn shared\n\ndef g() -> None:\n\tx = pairs\n"},
]


def multi_module(sources):
	"""An application over several in-memory modules (the source provider serves them; everything else is the real pipeline)."""
	from rogw.tranp.app.app import App
	from rogw.tranp.lang.locator import Invoker
	from rogw.tranp.lang.module import to_fullyname
	from rogw.tranp.module.modules import Modules
	from rogw.tranp.module.types import ModulePath, ModulePaths
	from rogw.tranp.providers.syntax.ast import source_provider
	from rogw.tranp.syntax.ast.parser import SourceProvider
	holder = {}

	def provider():
		def handler(module_path: str) -> str:
			if module_path in sources:
				return sources[module_path]
			return holder['app'].resolve(Invoker)(source_provider)(module_path)
		return handler
	app = App({to_fullyname(ModulePaths): lambda: [ModulePath(m, language='py') for m in sources], to_fullyname(SourceProvider): provider})
	holder['app'] = app
	mods = app.resolve(Modules)
	for m in sources:
		mods.load(m)
	return app


def table_ops(rng, n_hist, n_ops):
	"""Random operation histories on a real SymbolDB against a reference model (a dict and a list)."""
	from rogw.tranp.errors import Errors
	from rogw.tranp.semantics.reflection.db import SymbolDB
	fails, steps = [], 0
	mods = ['m', 'm.sub', 'n', 'mm']
	locs = ['A', 'A.f', 'B', 'f', 'A.f.x']
	for h in range(n_hist):
		db, ref_items, ref_done, hist = SymbolDB(), {}, [], []
		for _ in range(n_ops):
			op = rng.choice(['set', 'set', 'set', 'get', 'done', 'unload', 'scan'])
			m, loc = rng.choice(mods), rng.choice(locs)
			key = f'{m}#{loc}'
			hist.append((op, key))
			steps += 1
			what = None
			if op == 'set':
				v = object()
				db[key] = v  # type: ignore[assignment]
				ref_items[key] = v
			elif op == 'get':
				try:
					got = db[key]
					if key not in ref_items or got is not ref_items[key]:
						what = f'db[{key!r}] answers although the key was {"never stored" if key not in ref_items else "stored with another symbol"}'
				except Errors.SymbolNotDefined:
					if key in ref_items:
						what = f'db[{key!r}] raises SymbolNotDefined for a stored key'
			elif op == 'done':
				db.on_complete(m)
				if m not in ref_done:
					ref_done.append(m)
			elif op == 'unload':
				db.unload(m)
				ref_items = {k: v for k, v in ref_items.items() if k.split('#')[0] != m}
				ref_done = [x for x in ref_done if x != m]
			if what is None:
				if sorted(db.keys()) != sorted(ref_items) or any(db[k] is not ref_items[k] for k in ref_items) or len(db) != len(ref_items):
					what = f'table content differs from the reference after {op} {key}'
				elif any(db.completed(x) != (x in ref_done) for x in mods):
					what = f'completion marks differ from the reference after {op} {key}'
				elif any(db.has_module(x) != any(k.split('#')[0] == x for k in ref_items) for x in mods):
					what = f'has_module differs from the reference after {op} {key}'
				elif any(sorted(k for k, _ in db.items(x)) != sorted(k for k in ref_items if k.split('#')[0] == x) for x in mods):
					what = f'items(module) differs from the reference after {op} {key}'
			if what:
				fails.append({'what': what, 'program': f'history {hist}'})
				break
	return steps, fails


def run(tier: str, seed: int = 0):
	cwd = os.getcwd()
	os.chdir(REPO)
	if REPO not in sys.path:
		sys.path.insert(0, REPO)
	try:
		from tests.test.fixture import Fixture
		from rogw.tranp.dsn.module import ModuleDSN
		from rogw.tranp.semantics.reflection.db import SymbolDB
		from rogw.tranp.semantics.reflection.serialization import IReflectionSerializer
		fx = Fixture.make(f'{REPO}/tests/unit/rogw/tranp/semantics/test_reflections.py')
		fx.shared_module
		db = fx.get(SymbolDB)
		ser = fx.get(IReflectionSerializer)
		fails, n, rows = [], 0, 0
		# every real module of the fixture application (library stubs, typing, the reflections fixture)
		for mp in sorted({ModuleDSN.parsed(k)[0] for k in db.keys()}):
			f, r = check_module(db, ser, mp, SymbolDB, ModuleDSN, f'real module {mp}')
			fails += f
			n += 1
			rows += r
		rng = random.Random(14_000 + seed)
		progs = list(FIXED) + [gen_program(rng) for _ in range(60 if tier == 'quick' else 400)]
		for src in progs:
			try:
				mod = fx.custom_module(src)
			except Exception as e:  # noqa: BLE001 - a generated program the front end refuses is not a C14 case
				continue
			f, r = check_module(db, ser, mod.path, SymbolDB, ModuleDSN, src)
			fails += f
			n += 1
			rows += r
		# multi-module programs: symbols that are imports (classes, functions, typed variables) of another generated module
		for sources in MULTI:
			try:
				app = multi_module(sources)
			except Exception as e:  # noqa: BLE001
				fails.append({'what': f'multi-module program does not load: {type(e).__name__}: {str(e)[:100]}', 'program': str(sources)[:300]})
				continue
			mdb, mser = app.resolve(SymbolDB), app.resolve(IReflectionSerializer)
			for mp in sources:
				f, r = check_module(mdb, mser, mp, SymbolDB, ModuleDSN, f'module {mp} of {sorted(sources)}: ' + sources[mp])
				fails += f
				n += 1
				rows += r
		steps, f2 = table_ops(random.Random(14_500 + seed), 60 if tier == 'quick' else 600, 14)
		return n, rows + steps, fails + f2
	finally:
		os.chdir(cwd)
		import shutil
		shutil.rmtree(os.path.join(REPO, '.cache'), ignore_errors=True)


if __name__ == '__main__':
	n, rows, fails = run(sys.argv[1] if len(sys.argv) > 1 else 'quick', int(sys.argv[2]) if len(sys.argv) > 2 else 0)
	print(n, 'modules', rows, 'rows', len(fails), 'failures')
	seen = set()
	for f in fails:
		key = f['what'].split(':')[0][:60]
		if key in seen:
			continue
		seen.add(key)
		print(' ', f['what'][:300])
		print('    ', repr(f['program'])[:300])
