"""Bounded twin for C17 (history): ONE LiteralEvaluator (it is a singleton of a transpile run) folds the member references of several
modules one after the other - the same module path reloaded with other constants, as the interactive mode and multi-module runs do.
Every folded value must equal (value and type) what CPython gives when it executes that module.  Never counted as proved."""
import os
import random
import sys

REPO = os.environ.get('PYVC_REPO', '/repo')


def gen_module(rnd):
	a0, k, m, j = rnd.choice([1, 0x10, 7, 250]), rnd.randint(1, 9), rnd.randint(2, 5), rnd.randint(1, 4)
	op = rnd.choice(['+', '*', '-', '|', '<<'])
	src = ('from enum import Enum\n\n\nclass E0(Enum):\n\tA = %d\n\tB = A %s %d\n\n\nclass E1(Enum):\n\tA = E0.B.value * %d\n\tB = A + E0.A.value + %d\n\n\n'
		'E0.A.value\nE0.B.value\nE1.A.value\nE1.B.value\n') % (a0, op, k, m, j)
	return src


def run(tier: str, seed: int = 0):
	cwd = os.getcwd()
	os.chdir(REPO)
	if REPO not in sys.path:
		sys.path.insert(0, REPO)
	try:
		from tests.test.fixture import Fixture
		from rogw.tranp.errors import Errors
		from rogw.tranp.implements.transpiler.evaluator import LiteralEvaluator
		from rogw.tranp.semantics.reflections import Reflections
		import rogw.tranp.syntax.node.definition as defs
		rnd = random.Random(17_000 + seed)
		fails, n = [], 0
		for h in range(4 if tier == 'quick' else 30):
			fx = Fixture.make(f'{REPO}/tests/unit/rogw/tranp/semantics/test_reflections.py')
			evaluator = LiteralEvaluator(fx.get(Reflections))
			hist = []
			for step in range(3):
				src = gen_module(rnd)
				hist.append(src)
				scope: dict = {}
				exec(src, scope)
				module = fx.custom_module(src)
				refs = [st for st in module.entrypoint.statements if isinstance(st, defs.Relay)]
				for node in refs:
					want = eval(node.tokens, scope)
					n += 1
					try:
						got = evaluator.exec(node)
					except Errors.OperationNotAllowed:
						continue
					if got != want or type(got) is not type(want):
						fails.append({'history': list(hist), 'what': f'{node.tokens} of module #{len(hist)} of one evaluator folds to {got!r}, CPython gives {want!r}'})
						break
				if fails:
					break
			if len(fails) >= 2:
				break
		return n, fails
	finally:
		os.chdir(cwd)
		import shutil
		shutil.rmtree(os.path.join(REPO, '.cache'), ignore_errors=True)


if __name__ == '__main__':
	n, fails = run(sys.argv[1] if len(sys.argv) > 1 else 'quick', int(sys.argv[2]) if len(sys.argv) > 2 else 0)
	print(n, 'folded references', len(fails), 'failures')
	for f in fails[:2]:
		print(' ', f['what'][:200])
