"""Bounded twin for C04: every transpile inside a history of load / transpile / unload operations over a pool of generated
modules gives the text a fresh process gives, for several PYTHONHASHSEED values and target orders.  Real pipeline
(TranspileApp wiring of bin/transpile.py, caching disabled so that only in-process state is exercised)."""
import json
import os
import random
import subprocess

from twins.pipeline import PY313, REPO, SITE, Project, body_without_header

WORKER = os.path.join(os.path.dirname(os.path.abspath(__file__)), 'session_worker.py')

PRELUDE = 'from typing import Generic, TypeVar\n\n'


def gen_pool(rng):
	"""4 modules: nested generics used with different actual types per module (dict.items, enumerate, user generics two levels deep),
	methods with several type variables of their own, a shared base module imported by others, equal names in different modules."""
	kt = ['str', 'int', 'float', 'bool']
	pool = {}
	pool['base.py'] = (PRELUDE + "T = TypeVar('T')\nU = TypeVar('U')\nV = TypeVar('V')\n\n"
		"class Box(Generic[T]):\n\tdef get(self, v: T) -> T:\n\t\treturn v\n\n\tdef table(self, v: T) -> dict[str, list[T]]:\n\t\treturn {'k': [v]}\n\n"
		"class Picker:\n\tdef pick(self, a: T, b: U, c: V) -> dict[T, dict[U, V]]:\n\t\treturn {a: {b: c}}\n\n\tdef pair(self, a: U, b: T) -> tuple[T, U]:\n\t\treturn (b, a)\n")
	for i in range(3):
		k, v = rng.choice(kt[:2]), rng.choice(kt)
		lit = {'str': "'s'", 'int': '1', 'float': '1.5', 'bool': 'True'}
		body = [f'from src.base import Box, Picker', '']
		body += [f'def walk(d: dict[{k}, {v}]) -> None:', '\tfor key, value in d.items():', '\t\ta = value', '\t\tb = key', '\tc = [value for key, value in d.items()]', '\tfor index, key2 in enumerate(d.keys()):', '\t\te = key2', '']
		body += [f'def boxed() -> None:', f'\tb = Box[{v}]()', f'\tx = b.get({lit[v]})', f'\tfor name, values in b.table({lit[v]}).items():', '\t\tfor value in values:', '\t\t\ty = value', '']
		body += [f'def picked() -> None:', f'\tp = Picker().pick({lit[k]}, {lit[v]}, {lit[rng.choice(kt)]})', '\tfor a, inner in p.items():', '\t\tfor b, c in inner.items():', '\t\t\tz = c', f'\tq = Picker().pair({lit[v]}, {lit[k]})', '']
		body += ['class Local:', f'\tdef value(self) -> {v}:', f'\t\treturn {lit[v]}', '']
		pool[f'm{i}.py'] = '\n'.join(body)
	# a module whose exported class name comes from a decorator (re-submitted with another alias inside a session), and two modules whose
	# paths are in prefix relation (unit / units)
	pool['unit.py'] = 'def one() -> int:\n\treturn 1\n'
	pool['units.py'] = 'def many() -> int:\n\treturn 2\n'
	return pool


ALIAS = ("from rogw.tranp.compatible.python.embed import Embed\n\n\n@Embed.alias('{name}')\nclass Counter:\n\tdef __init__(self, start: int) -> None:\n\t\tself.start: int = start\n\n\n"
	"def make() -> None:\n\tc = Counter(1)\n")


def run_worker(p, ops, hashseed):
	env = dict(os.environ)
	env['PYTHONPATH'] = f'{REPO}:{SITE}:{p.dir}'
	env['PYTHONHASHSEED'] = str(hashseed)
	env['PYVC_REPO'] = REPO
	r = subprocess.run([PY313, WORKER, json.dumps(ops)], cwd=p.dir, env=env, capture_output=True, text=True, timeout=600)
	for ln in r.stdout.split('\n'):
		if ln.startswith('RESULT '):
			return json.loads(ln[7:])
	raise RuntimeError(f'session worker failed: rc={r.returncode} {r.stderr[-600:]}')


def run(tier: str, seed: int = 0):
	rng = random.Random(4_000 + seed)
	fails, cases = [], 0
	p = Project(cache_enabled=False)
	try:
		pool = gen_pool(rng)
		for name, text in pool.items():
			p.write(name, text)
		mods = ['src.' + n[:-3] for n in pool]
		ref = {}
		for m in mods:
			out = run_worker(p, [['transpile', m]], 0)[0]
			ref[m] = outcome(out)
		if all(v.startswith('ERROR') for v in ref.values()):
			raise RuntimeError(f'no module of the generated pool transpiles in a fresh process: {list(ref.values())[0][:200]}')
		# hash seeds: fresh processes
		for hs in ([1, 7] if tier == 'quick' else [1, 2, 3, 7, 11, 42, 1234]):
			for m in mods:
				cases += 1
				out = run_worker(p, [['transpile', m]], hs)[0]
				if outcome(out) != ref[m]:
					fails.append({'what': f'transpile({m}) under PYTHONHASHSEED={hs} differs from PYTHONHASHSEED=0', 'history': [['transpile', m]], 'hashseed': hs, 'diff': first_diff(ref[m], outcome(out))})
		# histories in one process
		n_hist = 4 if tier == 'quick' else 30
		for h in range(n_hist):
			ops = []
			for _ in range(rng.randint(4, 9)):
				op = rng.choice(['transpile', 'transpile', 'transpile', 'load', 'unload'])
				ops.append([op, rng.choice(mods)])
			ops += [['transpile', m] for m in rng.sample(mods, len(mods))]
			res = run_worker(p, ops, rng.choice([0, 5]))
			for i, out in enumerate(res):
				if out['op'] != 'transpile':
					continue
				cases += 1
				got = outcome(out)
				if got != ref[out['module']]:
					fails.append({'what': f'transpile({out["module"]}) as step {i} of a session differs from the same request in a fresh process', 'history': ops[:i + 1], 'diff': first_diff(ref[out['module']], got)})
					break
		# ---- interactive mode: several submissions in one session; each text must be what a fresh session gives for that submission alone
		subs = [ALIAS.format(name='Meter'), 'def f(n: int) -> int:\n\treturn n + 1\n', ALIAS.format(name='Gauge'), ALIAS.format(name='Meter'), 'from src.base import Box\n\ndef g() -> None:\n\tb = Box[int]()\n\tx = b.get(1)\n']
		fresh = {}
		for t in subs:
			if t not in fresh:
				fresh[t] = outcome(run_worker(p, [['submit', t]], 0)[0])
		scripted = [[subs[0], subs[2], subs[0]], [subs[4], subs[1], subs[4]]]  # the same class re-submitted with another alias and back; a user of an imported generic around an unrelated submission
		for h in range(len(scripted) + (1 if tier == 'quick' else 8)):
			seq = scripted[h] if h < len(scripted) else [rng.choice(subs) for _ in range(rng.randint(2, 4))]
			res = run_worker(p, [['submit', t] for t in seq], rng.choice([0, 3]))
			for i, (t, out) in enumerate(zip(seq, res)):
				cases += 1
				if outcome(out) != fresh[t]:
					fails.append({'what': f'submission #{i + 1} of an interactive session gives another text than the same submission in a fresh session', 'history': seq[:i + 1], 'diff': first_diff(fresh[t], outcome(out))})
					break
		# ---- target order: the same module gives the same text whatever the order of the target list
		import itertools
		names = ['src/units.py', 'src/unit.py', 'src/m0.py']
		texts = {}
		for order in list(itertools.permutations(names))[: (3 if tier == 'quick' else 6)]:
			set_inputs(p, list(order))
			for m in ['src.unit', 'src.units']:
				cases += 1
				t = outcome(run_worker(p, [['transpile', m]], 0)[0])
				if m in texts and texts[m][1] != t:
					fails.append({'what': f'transpile({m}) depends on the order of the target list', 'orders': [texts[m][0], list(order)], 'diff': first_diff(texts[m][1], t)})
				texts.setdefault(m, (list(order), t))
		return cases, fails, {k: v for k, v in pool.items()}
	finally:
		p.close()


def set_inputs(p, globs):
	"""Rewrite the input_globs list of the scratch project's config.yml (explicit files, in the given order)."""
	cfgp = os.path.join(p.dir, 'config.yml')
	lines = open(cfgp).read().split('\n')
	out, skip = [], False
	for ln in lines:
		if ln.startswith('input_globs:'):
			out.append(ln)
			out += [f'  - {g}' for g in globs]
			skip = True
			continue
		if skip and ln.startswith('  - '):
			continue
		skip = False
		out.append(ln)
	open(cfgp, 'w').write('\n'.join(out))


def outcome(out):
	"""Text of a transpile (the header line with the recorded hashes included), or the error it ended with."""
	return out['text'] if 'text' in out else 'ERROR ' + out.get('error', '')


def first_diff(a, b):
	la, lb = a.split('\n'), b.split('\n')
	for i, (x, y) in enumerate(zip(la, lb)):
		if x != y:
			return {'line': i + 1, 'fresh': x[:160], 'session': y[:160]}
	return {'line': min(len(la), len(lb)) + 1, 'fresh': f'{len(la)} lines', 'session': f'{len(lb)} lines' if b else b[:200]}


if __name__ == '__main__':
	import sys
	n, fails, pool = run(sys.argv[1] if len(sys.argv) > 1 else 'quick', int(sys.argv[2]) if len(sys.argv) > 2 else 0)
	print(n, 'cases', len(fails), 'failures')
	for f in fails[:3]:
		print(json.dumps(f)[:700])
