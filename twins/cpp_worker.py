"""Worker for the C01 checks (Python 3.13): real Py2Cpp pipeline on generated functions.

1. closed table: for every (outer operator level, inner operator level, side) pair that Python lets stand without
   parentheses, the emitted C++ text - parsed with C++'s precedence - must have the grouping Python gives the source.
2. bounded: random scalar functions (arithmetic / bitwise / comparison / boolean operators, ternary, if / elif / else, while,
   for-range, augmented assignment) are compiled with g++ -std=c++20 and run; every result must equal CPython's.
Prints one JSON object."""
import ast
import itertools
import json
import os
import random
import re
import subprocess
import sys
import tempfile
import time

REPO = os.environ.get('PYVC_REPO', '/repo')
sys.path.insert(0, REPO)
os.chdir(REPO)

from rogw.tranp.app.dir import tranp_dir  # noqa: E402
from rogw.tranp.file.loader import IDataLoader  # noqa: E402
from rogw.tranp.i18n.i18n import I18n, TranslationMapping  # noqa: E402
from rogw.tranp.implements.cpp.providers.i18n import translation_mapping_cpp  # noqa: E402
from rogw.tranp.implements.cpp.providers.view import renderer_helper_provider_cpp  # noqa: E402
from rogw.tranp.implements.cpp.transpiler.py2cpp import Py2Cpp  # noqa: E402
from rogw.tranp.lang.middleware import Middleware  # noqa: E402
from rogw.tranp.lang.module import to_fullyname  # noqa: E402
from rogw.tranp.transpiler.types import TranspilerOptions  # noqa: E402
from rogw.tranp.view.render import Renderer, RendererEmitter, RendererHelperProvider, RendererSetting  # noqa: E402
from tests.test.fixture import Fixture  # noqa: E402


def _setting(i18n: I18n, emitter: RendererEmitter) -> RendererSetting:
	return RendererSetting([os.path.join(tranp_dir(), 'data/cpp/template')], i18n.t, emitter, {'immutable_param_types': ['std::string', 'std::vector', 'std::map', 'std::function']})


def _mapping(datums: IDataLoader) -> TranslationMapping:
	return translation_mapping_cpp(datums)


FX = Fixture('tests.unit.rogw.tranp.implements.cpp.transpiler.fixtures.fixture_py2cpp_edge', {
	to_fullyname(Py2Cpp): Py2Cpp, to_fullyname(Renderer): Renderer, to_fullyname(RendererEmitter): Middleware,
	to_fullyname(RendererHelperProvider): renderer_helper_provider_cpp, to_fullyname(RendererSetting): _setting,
	to_fullyname(TranslationMapping): _mapping, to_fullyname(TranspilerOptions): lambda: TranspilerOptions(verbose=False, env={}),
})


def transpile(source: str) -> list[str]:
	"""C++ text of every top-level statement of the module."""
	module = FX.custom_module(source)
	py2cpp = FX.get(Py2Cpp)
	return [py2cpp.transpile(st) for st in module.entrypoint.statements]


# ------------------------------------------------------------------ C++ expression parser (the operator subset, C++ precedence)
TOK = re.compile(r'\s*(\|\||&&|==|!=|<=|>=|<<|>>|[-+*/%&|^~!<>?:()]|[A-Za-z_]\w*|\d+)')
LEVELS = [['||'], ['&&'], ['|'], ['^'], ['&'], ['==', '!='], ['<', '<=', '>', '>='], ['<<', '>>'], ['+', '-'], ['*', '/', '%']]


def cpp_tokens(text):
	out, i = [], 0
	text = text.strip()
	while i < len(text):
		m = TOK.match(text, i)
		if not m:
			raise ValueError(f'cannot tokenize C++ at {text[i:i + 20]!r}')
		out.append(m.group(1))
		i = m.end()
	return out


def cpp_parse(text):
	toks = cpp_tokens(text)
	pos = [0]

	def peek():
		return toks[pos[0]] if pos[0] < len(toks) else None

	def take():
		pos[0] += 1
		return toks[pos[0] - 1]

	def ternary():
		c = binary(0)
		if peek() == '?':
			take()
			a = ternary()
			if take() != ':':
				raise ValueError('expected :')
			b = ternary()
			return ['ifexp', c, a, b]
		return c

	def binary(level):
		if level == len(LEVELS):
			return unary()
		left = binary(level + 1)
		while peek() in LEVELS[level]:
			op = take()
			right = binary(level + 1)
			left = ['bin', op, left, right]
		return left

	def unary():
		if peek() in ('!', '-', '~', '+'):
			op = take()
			return ['un', op, unary()]
		if peek() == '(':
			take()
			e = ternary()
			if take() != ')':
				raise ValueError('expected )')
			return e
		return ['v', take()]
	e = ternary()
	if pos[0] != len(toks):
		raise ValueError(f'trailing tokens {toks[pos[0]:]}')
	return e


PYBIN = {ast.Add: '+', ast.Sub: '-', ast.Mult: '*', ast.Mod: '%', ast.BitOr: '|', ast.BitXor: '^', ast.BitAnd: '&', ast.LShift: '<<', ast.RShift: '>>'}
PYCMP = {ast.Lt: '<', ast.Gt: '>', ast.Eq: '==', ast.LtE: '<=', ast.GtE: '>=', ast.NotEq: '!='}


def py_tree(n):
	if isinstance(n, ast.BoolOp):
		op = '||' if isinstance(n.op, ast.Or) else '&&'
		acc = py_tree(n.values[0])
		for v in n.values[1:]:
			acc = ['bin', op, acc, py_tree(v)]
		return acc
	if isinstance(n, ast.UnaryOp):
		return ['un', {ast.Not: '!', ast.USub: '-', ast.Invert: '~', ast.UAdd: '+'}[type(n.op)], py_tree(n.operand)]
	if isinstance(n, ast.BinOp):
		return ['bin', PYBIN[type(n.op)], py_tree(n.left), py_tree(n.right)]
	if isinstance(n, ast.Compare) and len(n.ops) == 1:
		return ['bin', PYCMP[type(n.ops[0])], py_tree(n.left), py_tree(n.comparators[0])]
	if isinstance(n, ast.IfExp):
		return ['ifexp', py_tree(n.test), py_tree(n.body), py_tree(n.orelse)]
	if isinstance(n, ast.Name):
		return ['v', n.id]
	if isinstance(n, ast.Constant):
		return ['v', 'true' if n.value is True else 'false' if n.value is False else str(n.value)]
	raise ValueError(f'outside the compared subset: {ast.dump(n)[:60]}')


def flat(t):
	"""&& and || are associative: compare them as n-ary operators"""
	if t[0] == 'bin' and t[1] in ('&&', '||'):
		items = []

		def collect(x):
			if x[0] == 'bin' and x[1] == t[1]:
				collect(x[2])
				collect(x[3])
			else:
				items.append(flat(x))
		collect(t)
		return ['nary', t[1]] + items
	return [t[0]] + [flat(x) if isinstance(x, list) else x for x in t[1:]]


# ------------------------------------------------------------------ the closed operator-pair table
# operator levels of the Python grammar (low to high) with a representative, its operand type and result type
PLEVELS = [
	('ternary', None, 'any', 'any'), ('or', 'or', 'bool', 'bool'), ('and', 'and', 'bool', 'bool'), ('not', 'not', 'bool', 'bool'),
	('compare==', '==', 'int', 'bool'), ('compare<', '<', 'int', 'bool'), ('compare!=', '!=', 'int', 'bool'), ('compare>=', '>=', 'int', 'bool'),
	('bitor', '|', 'int', 'int'), ('bitxor', '^', 'int', 'int'), ('bitand', '&', 'int', 'int'), ('shift<<', '<<', 'int', 'int'), ('shift>>', '>>', 'int', 'int'),
	('sum+', '+', 'int', 'int'), ('sum-', '-', 'int', 'int'), ('term*', '*', 'int', 'int'), ('term%', '%', 'int', 'int'), ('neg', '-', 'int', 'int'), ('invert', '~', 'int', 'int'),
]


def leaf(ty, k):
	return {'int': ['a', 'b', 'c', 'd'], 'bool': ['p', 'q', 'r', 's'], 'any': ['a', 'b', 'c', 'd']}[ty][k]


def build(level, operands):
	name, op, oty, rty = level
	if name == 'ternary':
		return f'{operands[0]} if {operands[1]} else {operands[2]}'
	if name in ('not', 'neg', 'invert'):
		return f'{op} {operands[0]}' if name == 'not' else f'{op}{operands[0]}'
	return f'{operands[0]} {op} {operands[1]}'


def table_cases():
	"""outer(inner) compositions without source parentheses, wherever they type-check and Python's grammar gives them a grouping"""
	cases = []
	for outer in PLEVELS:
		n_operands = 3 if outer[0] == 'ternary' else 1 if outer[0] in ('not', 'neg', 'invert') else 2
		for inner in PLEVELS:
			for slot in range(n_operands):
				want = 'bool' if (outer[0] == 'ternary' and slot == 1) else outer[2]
				if want != 'any' and inner[3] != 'any' and inner[3] != want:
					continue
				iops = [leaf(inner[2] if not (inner[0] == 'ternary' and k == 1) else 'bool', k) for k in range(3)]
				inner_txt = build(inner, iops)
				ops = []
				for k in range(n_operands):
					ops.append(inner_txt if k == slot else leaf(want if k != 1 or outer[0] != 'ternary' else 'bool', 3) if outer[0] != 'ternary' else ['c', 's', 'd'][k])
				src = build(outer, ops)
				try:
					tree = ast.parse(src, mode='eval').body
					py_tree(tree)
				except (SyntaxError, ValueError):
					continue
				cases.append((f'{outer[0]}[{slot}]<-{inner[0]}', src))
	seen, out = set(), []
	for name, src in cases:
		if src not in seen:
			seen.add(src)
			out.append((name, src))
	return out


def ret_type(src):
	t = ast.parse(src, mode='eval').body
	if isinstance(t, (ast.BoolOp, ast.Compare)) or (isinstance(t, ast.UnaryOp) and isinstance(t.op, ast.Not)):
		return 'bool'
	if isinstance(t, ast.IfExp):
		return ret_type(ast.unparse(t.body))
	if isinstance(t, ast.Name):
		return 'bool' if t.id in 'pqrs' else 'int'
	return 'int'


SIG = 'a: int, b: int, c: int, d: int, p: bool, q: bool, r: bool, s: bool'


def emitted_expr(cpp_fn):
	m = re.search(r'return (.*);\s*\}\s*$', cpp_fn, re.S)
	if not m:
		raise ValueError(f'no return expression in {cpp_fn[-120:]!r}')
	return m.group(1)


# ------------------------------------------------------------------ random scalar programs, compiled and run
def g_int(r, d):
	k = r.random()
	if d <= 0 or k < 0.3:
		return r.choice(['a', 'b', 'c', 'x', 'y', '1', '2', '3', '7'])
	if k < 0.55:
		return f'{g_int(r, d - 1)} {r.choice(["+", "-", "*"])} {g_int(r, d - 1)}'
	if k < 0.7:
		return f'{g_int(r, d - 1)} {r.choice(["&", "|", "^"])} {g_int(r, d - 1)}'
	if k < 0.76:
		return f'{g_int(r, d - 1)} {r.choice(["<<", ">>"])} {r.choice(["1", "2"])}'
	if k < 0.82:
		return f'({g_int(r, d - 1)}) * ({g_int(r, d - 1)}) % {r.choice(["3", "5", "7"])}' if False else f'({g_int(r, d - 1)})'
	if k < 0.88:
		return f'{r.choice(["-", "~"])}{g_int(r, 0)}'
	return f'{g_int(r, d - 1)} if {g_bool(r, d - 1)} else {g_int(r, d - 1)}'


def g_bool(r, d):
	k = r.random()
	if d <= 0 or k < 0.35:
		return f'{g_int(r, max(d, 0))} {r.choice(["<", ">", "==", "!=", "<=", ">="])} {g_int(r, max(d, 0))}'
	if k < 0.6:
		return f'{g_bool(r, d - 1)} {r.choice(["and", "or"])} {g_bool(r, d - 1)}'
	if k < 0.8:
		return f'not {g_bool(r, d - 1)}'
	return f'({g_bool(r, d - 1)})'


def g_body(r, depth, ind):
	pad = '\t' * ind
	out = []
	for _ in range(r.randint(1, 3)):
		k = r.random()
		if k < 0.4 or depth <= 0:
			out.append(f'{pad}{r.choice(["x", "y"])} {r.choice(["=", "+=", "-="])} {g_int(r, 2)}')
		elif k < 0.65:
			out.append(f'{pad}if {g_bool(r, 2)}:')
			out += g_body(r, depth - 1, ind + 1)
			if r.random() < 0.5:
				out.append(f'{pad}elif {g_bool(r, 1)}:')
				out += g_body(r, depth - 1, ind + 1)
			if r.random() < 0.6:
				out.append(f'{pad}else:')
				out += g_body(r, depth - 1, ind + 1)
		elif k < 0.8:
			v = f'i{ind}'
			out.append(f'{pad}for {v} in range({r.choice(["2", "3", "4"])}):')
			out.append(f'{pad}\tx += {v} * {g_int(r, 1)}')
			if r.random() < 0.4:
				out.append(f'{pad}\tif {g_bool(r, 1)}:')
				out.append(f'{pad}\t\t{r.choice(["break", "continue"])}')
		else:
			v = f'n{ind}'
			out.append(f'{pad}{v} = 0')
			out.append(f'{pad}while {v} < {r.choice(["2", "3"])}:')
			out.append(f'{pad}\t{v} += 1')
			out.append(f'{pad}\ty = y + {g_int(r, 1)}')
	return out


def g_container_function(r, i):
	"""an enum whose members are defined by operator expressions, used under tighter-binding operators; fill lists (annotated and not), a
	comprehension, len, non-negative constant indices, a for-each loop"""
	k1, k2, m1, m2 = r.randint(1, 3), r.randint(1, 3), r.randint(5, 12), r.randint(1, 4)
	lines = ['from enum import Enum', '', '', f'class Perm{i}(Enum):', '\tREAD = 1', f'\tWRITE = 1 << {k1}', f'\tEXEC = 1 << {k2}', f'\tBASE = {m1} - {m2}', f'\tMIX = READ + {k1} * 2', '', '',
		f'def fn{i}(a: int, b: int, c: int) -> int:', '\tn = a * a + 1']
	lines.append(f'\txs: list[int] = [{r.choice(["b", "c", "2"])}] * n' if r.random() < 0.7 else f'\txs = [{r.choice(["b", "c"])}] * n')
	lines.append(f'\tys = [{r.choice(["a", "c", "7"])}] * {r.randint(2, 4)}')
	lines.append('\ttotal = len(xs) + xs[0] + ys[1]')
	lines += ['\tfor x in xs:', f'\t\ttotal += x {r.choice(["+", "*", "-"])} {r.choice(["1", "2", "b"])}']
	mem = lambda: f'Perm{i}.{r.choice(["WRITE", "EXEC", "BASE", "MIX", "READ"])}.value'  # noqa: E731
	lines.append(f'\ttotal += {mem()} {r.choice(["*", "+", "-"])} {r.choice(["2", "n", "c"])} {r.choice(["+", "-", "*"])} {mem()}')
	lines.append(f'\ttotal -= {r.choice(["n", "3"])} * {mem()} - {mem()} * {r.choice(["2", "b"])}')
	lines += [f'\tzs = [k * {r.choice(["2", "c"])} for k in range(n) if k % 2 == {r.choice(["0", "1"])}]', '\ttotal += len(zs)', '\tfor z in zs:', '\t\ttotal += z', '\treturn total']
	return '\n'.join(lines) + '\n'


def g_function(r, i):
	kind = r.random()
	if kind < 0.2:
		return g_float_function(r, i)
	if kind < 0.4:
		return g_container_function(r, i)
	lines = [f'def fn{i}(a: int, b: int, c: int) -> int:', '\tx = a', '\ty = b']
	late = kind < 0.5
	if late:
		# a name first assigned inside a nested block, then at function level, then again in later blocks
		lines += [f'\tif {g_bool(r, 1)}:', f'\t\tw = {g_int(r, 1)}', f'\t\tx += w', f'\tw = {g_int(r, 1)}']
	lines += g_body(r, 2, 1)
	if late:
		lines += [f'\tfor k in range({r.choice(["2", "3"])}):', f'\t\tw = k * {g_int(r, 1)}', f'\t\tif {g_bool(r, 1)}:', f'\t\t\tw = w + 1']
		lines.append(f'\treturn w + {g_int(r, 1)}')
	else:
		lines.append(f'\treturn {g_int(r, 2)}')
	return '\n'.join(lines) + '\n'


def g_flt(r, d):
	k = r.random()
	if d <= 0 or k < 0.35:
		return r.choice(['u', 'v', '0.5', '2.25', '1.5', 'float(a)', 'float(b)'])
	if k < 0.8:
		return f'{g_flt(r, d - 1)} {r.choice(["+", "-", "*"])} {g_flt(r, d - 1)}'
	return f'({g_flt(r, d - 1)})'


def g_float_function(r, i):
	"""floats: + - * and % with a non-negative left operand and a positive right operand (where fmod and Python's % agree); the result is scaled to an int"""
	lines = [f'def fn{i}(a: int, b: int, c: int) -> int:', '\tu = 0.5', '\tv = 1.25', '\tn = a * a + 1', '\tm = b * b']
	for _ in range(r.randint(1, 3)):
		k = r.random()
		if k < 0.35:
			lines.append(f'\t{r.choice(["u", "v"])} = {g_flt(r, 2)}')
		elif k < 0.7:
			lines.append(f'\tr{len(lines)} = {r.choice(["n", "m", "7"])} % {r.choice(["2.25", "0.75", "1.5"])}')
			lines.append(f'\tu = u + r{len(lines) - 1}')
		else:
			lines.append(f'\tif {g_flt(r, 1)} < {g_flt(r, 1)}:')
			lines.append(f'\t\tv = {g_flt(r, 1)}')
	lines.append('\treturn int((u + v) * 64.0)')
	return '\n'.join(lines) + '\n'


ARGS = [(0, 0, 0), (1, 2, 3), (3, 1, 2), (-2, 5, 1), (4, -3, -1), (7, 7, 2), (-1, -1, -1), (2, 0, 5)]


def run_cpp(functions, names):
	"""compile all functions into one program, print fn(args) per line"""
	calls = []
	for n in names:
		for a in ARGS:
			calls.append(f'\tstd::cout << "{n} {a[0]} {a[1]} {a[2]} " << (long long)({n}({a[0]}, {a[1]}, {a[2]})) << "\\n";')
	text = '#include <iostream>\n#include <string>\n#include <vector>\n#include <map>\n#include <cmath>\n#include <algorithm>\n#include <tuple>\n\n' + '\n'.join(functions) + '\n\nint main() {\n' + '\n'.join(calls) + '\n\treturn 0;\n}\n'
	d = tempfile.mkdtemp(prefix='c01_')
	try:
		src = os.path.join(d, 'p.cpp')
		open(src, 'w').write(text)
		c = subprocess.run(['g++', '-std=c++20', '-O0', '-w', '-o', os.path.join(d, 'p'), src], capture_output=True, text=True, timeout=300)
		if c.returncode != 0:
			return None, c.stderr[:600]
		p = subprocess.run([os.path.join(d, 'p')], capture_output=True, text=True, timeout=60)
		out = {}
		for ln in p.stdout.split('\n'):
			if ln:
				n, x, y, z, v = ln.split(' ')
				out[(n, int(x), int(y), int(z))] = int(v)
		return out, ''
	finally:
		import shutil
		shutil.rmtree(d, ignore_errors=True)


def main():
	tier, seed = sys.argv[1], int(sys.argv[2])
	out = {'table': 0, 'table_fails': [], 'programs': 0, 'runs': 0, 'fails': [], 'skipped': 0}
	t0 = time.time()
	# ---- closed table
	cases = table_cases()
	src = ''.join(f'def t{i}({SIG}) -> {ret_type(s)}:\n\treturn {s}\n\n' for i, (_, s) in enumerate(cases))
	cpp = [c for c in transpile(src)]
	for (name, s), fn in zip(cases, cpp):
		out['table'] += 1
		try:
			got = flat(cpp_parse(emitted_expr(fn)))
		except ValueError as e:
			out['table_fails'].append({'pair': name, 'source': s, 'emitted': emitted_expr(fn) if 'return' in fn else fn[-100:], 'what': f'emitted text not in the operator subset: {e}'})
			continue
		want = flat(py_tree(ast.parse(s, mode='eval').body))
		if got != want:
			out['table_fails'].append({'pair': name, 'source': s, 'emitted': emitted_expr(fn), 'what': f'C++ groups the emitted text as {json.dumps(got)}, Python groups the source as {json.dumps(want)}'})
	# ---- comparison chains (Python: a < b < c means a < b and b < c): compiled and run
	chains = ['a < b < c', 'a == b == c', 'a <= b < c', 'a != b != c', 'a < b == c', 'a > b > c']
	csrc = [f'def ch{i}(a: int, b: int, c: int) -> bool:\n\treturn {s}\n' for i, s in enumerate(chains)]
	out['chains'] = []
	try:
		ccpp = [transpile(f)[0] for f in csrc]
		res, err = run_cpp(ccpp, [f'ch{i}' for i in range(len(chains))])
		for i, s in enumerate(chains):
			bad = None
			for a in ARGS:
				want = int(eval(s, {'a': a[0], 'b': a[1], 'c': a[2]}))
				if res is None or res.get((f'ch{i}', *a)) != want:
					bad = {'source': s, 'emitted': emitted_expr(ccpp[i]), 'args': list(a), 'cpp': None if res is None else res.get((f'ch{i}', *a)), 'python': want}
					break
			if bad:
				out['chains'].append(bad)
	except Exception as e:  # noqa: BLE001
		out['chains'].append({'source': chains[0], 'emitted': f'{type(e).__name__}: {e}', 'args': [], 'cpp': None, 'python': None})
	# ---- random programs
	r = random.Random(1_000 + seed)
	n_prog = 30 if tier == 'quick' else 300
	batch = 30
	for b0 in range(0, n_prog, batch):
		fns = [g_function(r, i) for i in range(b0, min(n_prog, b0 + batch))]
		names, good_src, good_cpp = [], [], []
		for i, f in enumerate(fns, b0):
			ns = {}
			try:
				exec(compile(f, '<gen>', 'exec'), ns)
				for a in ARGS:
					v = ns[f'fn{i}'](*a)
					if abs(v) > 2 ** 30:
						raise OverflowError
			except Exception:  # noqa: BLE001 - outside the subset where the semantics agree (overflow, negative shift ...)
				out['skipped'] += 1
				continue
			try:
				c = '\n'.join(transpile(f))
			except Exception as e:  # noqa: BLE001
				out['fails'].append({'what': f'a program of the subset is rejected by the transpiler: {type(e).__name__}: {str(e)[:120]}', 'program': f})
				continue
			names.append(f'fn{i}')
			good_src.append((f, ns[f'fn{i}']))
			good_cpp.append(c)
		if not names:
			continue
		res, err = run_cpp(good_cpp, names)
		if res is None:
			out['fails'].append({'what': f'the emitted C++ is not accepted by g++ -std=c++20: {err[:300]}', 'program': '\n'.join(s for s, _ in good_src)[:1500]})
			continue
		for n, (f, pyf), c in zip(names, good_src, good_cpp):
			out['programs'] += 1
			for a in ARGS:
				out['runs'] += 1
				if res.get((n, *a)) != pyf(*a):
					out['fails'].append({'what': f'{n}{a}: C++ returns {res.get((n, *a))}, CPython returns {pyf(*a)}', 'program': f, 'emitted': c})
					break
	out['seconds'] = round(time.time() - t0, 1)
	print(json.dumps(out))


if __name__ == '__main__':
	main()
