"""Bounded twin for C15 (and the cache clause of C16): the cache encoding of lark trees.

Contract (runtime-checked, bounded):  V(EntryOfLark(loads(J(dumps(T))))) == V(EntryOfLark(T))  where V is the view through the
real EntryOfLark properties (name, is_empty, has_child, is_terminal, value, source_map, children) and J is the JSON round trip.
"""
import itertools
import json
import os
import random
import sys

REPO = os.environ.get('PYVC_REPO', '/repo')
sys.path.insert(0, REPO)


def view(e):
	"""The observable view of an entry (what paths, node classes, token text and quotations are derived from)."""
	return (e.name, e.is_empty, e.has_child, e.is_terminal, e.value, (tuple(e.source_map['begin']), tuple(e.source_map['end'])), tuple(view(c) for c in e.children))


def roundtrip(tree):
	from rogw.tranp.implements.syntax.lark.entry import EntryOfLark, Serialization
	d = Serialization.dumps(tree)
	back = Serialization.loads(json.loads(json.dumps(d, separators=(',', ':'))))
	return view(EntryOfLark(tree)), view(EntryOfLark(back))


def mk_token(kind, pos):
	import lark
	t = lark.Token(kind, {'NAME': 'x', 'STR': '"a\nb"', 'EMPTYV': ''}[kind])
	if pos is not None:
		t.line, t.column, t.end_line, t.end_column = pos
	return t


def mk_tree(data, children, meta_kind):
	import lark
	m = lark.tree.Meta()
	if meta_kind == 'pos':
		m.line, m.column, m.end_line, m.end_column, m.empty = 1, 1, 3, 2, False
	elif meta_kind == 'pos0':
		m.line, m.column, m.end_line, m.end_column, m.empty = 1, 1, 1, 5, False
	return lark.Tree(data, children, m)


LEAVES = [('tok', 'NAME', (1, 2, 1, 3)), ('tok', 'STR', (2, 1, 3, 3)), ('tok', 'NAME', None), ('tok', 'EMPTYV', (1, 1, 1, 1)), ('tok', 'NAME', (0, 0, 0, 0)), ('none',)]


def small_trees(max_nodes):
	"""All trees with at most max_nodes nodes over the leaf alphabet, two rule names and three meta variants (exhaustive)."""
	memo = {}

	def gen(n):
		if n in memo:
			return memo[n]
		out = []
		if n == 1:
			out += [('leaf', l) for l in LEAVES]
		# a tree node uses 1 node + children
		for meta in ('empty', 'pos', 'pos0'):
			for data in ('rule_a', 'elif_clauses'):
				if n == 1:
					out.append(('tree', data, meta, ()))
				else:
					for parts in compositions(n - 1):
						for combo in itertools.product(*[gen(p) for p in parts]):
							out.append(('tree', data, meta, combo))
		memo[n] = out
		return out

	def compositions(n):
		if n == 0:
			yield ()
			return
		for first in range(1, n + 1):
			for rest in compositions(n - first):
				yield (first,) + rest

	for n in range(1, max_nodes + 1):
		for t in gen(n):
			if t[0] == 'tree':
				yield t


def build(spec):
	if spec[0] == 'leaf':
		l = spec[1]
		return None if l[0] == 'none' else mk_token(l[1], l[2])
	_, data, meta, kids = spec
	return mk_tree(data, [build(k) for k in kids], meta)


_parser = None


def real_tree(source):
	global _parser
	import lark
	from lark.indenter import PythonIndenter
	if _parser is None:
		_parser = lark.Lark(open(os.path.join(REPO, 'data/grammar.lark')).read(), start='file_input', parser='lalr', postlex=PythonIndenter(), propagate_positions=True)
	return _parser.parse(source)


REAL_SOURCES = [
	'x = 1\n',
	'def f(a: int, b: str = "s") -> None:\n\t"""doc\n\tmore\n\t"""\n\tif a:\n\t\tpass\n\telse:\n\t\treturn None\n',
	'class A(B[T]):\n\tdef m(self) -> "A":\n\t\tx = [1, (2, 3), {}]\n\t\ty = {\n\t\t\t"k": f(1,\n\t\t\t\t2),\n\t\t}\n\t\treturn self\n',
	'import a.b\nfrom c import d\n\nfor i in range(3):\n\tcontinue\nwhile True:\n\tbreak\ntry:\n\t...\nexcept Exception as e:\n\traise\n',
	'v = a if b is not c else [z for z in zs]\nw: Callable[[], int] = lambda: 1\n',
	'',
]


def search(tier, seed):
	"""Returns (cases, distinct_views, failures)."""
	rnd = random.Random(seed)
	n = 0
	fails = []
	views = set()
	max_nodes = 4 if tier == 'quick' else 5
	for spec in small_trees(max_nodes):
		n += 1
		a, b = roundtrip(build(spec))
		views.add(hash(a))
		if a != b and len(fails) < 20:
			fails.append({'kind': 'small-tree', 'spec': repr(spec), 'fresh': repr(a)[:400], 'restored': repr(b)[:400]})
	srcs = list(REAL_SOURCES)
	for fn in ['rogw/tranp/dsn/dsn.py', 'rogw/tranp/view/helper/block.py', 'rogw/tranp/lang/di.py', 'rogw/tranp/implements/syntax/lark/entry.py', 'tests/unit/rogw/tranp/semantics/reflection/fixtures/test_db_classes.py'][: 5 if tier == 'thorough' else 3]:
		p = os.path.join(REPO, fn)
		if os.path.exists(p):
			srcs.append(open(p, encoding='utf-8').read())
	for s in srcs:
		n += 1
		try:
			t = real_tree(s)
		except Exception:
			continue
		a, b = roundtrip(t)
		views.add(hash(a))
		if a != b and len(fails) < 20:
			fails.append({'kind': 'real-module', 'source': s[:200], 'fresh': first_diff(a, b)})
	return n, len(views), fails


def first_diff(a, b, path='root'):
	if a[:6] != b[:6]:
		return f'{path}: fresh {a[:6]!r} != restored {b[:6]!r}'
	if len(a[6]) != len(b[6]):
		return f'{path}: child count {len(a[6])} != {len(b[6])}'
	for i, (x, y) in enumerate(zip(a[6], b[6])):
		d = first_diff(x, y, f'{path}.{x[0]}[{i}]')
		if d:
			return d
	return ''
