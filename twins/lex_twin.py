"""Bounded twin for C13: tokenizer vs CPython's tokenize on generated sources of the supported lexical subset, layout metamorphism,
raw-lexer partition and spans, INDENT/DEDENT balance.  Never counted as proved."""
import io
import os
import random
import sys
import token as pytok
import tokenize as pytokenize

REPO = os.environ.get('PYVC_REPO', '/repo')
if REPO not in sys.path:
	sys.path.insert(0, REPO)

NAMES = ['a', 'b1', 'foo', '_x', 'value']
NUMS = ['0', '7', '42', '3.5', '10.25']
STRS = ['"s"', "'t'", '"a b"', '"x\\\\"', '"q\\"r"', "'it\\'s'", 'r"raw\\d"', 'r"a\\"b"', "r'it\\'s'", 'r"\\\\"', 'f"{a}"', '"""doc"""', '""', '"\\\\\\\\"', '"#no"']
OPS = ['+', '-', '*', '/', '%', '==', '!=', '<=', '>=', '<', '>', '&', '|', '^', '<<', '>>', '**', '->', ':=', '=', '+=', '-=', '*=', '/=', '%=', '&=', '|=', '^=', '.', ',', '~', '@']


def gen_expr(rnd, depth=2):
	r = rnd.random()
	if depth <= 0 or r < 0.3:
		return rnd.choice(NAMES + NUMS + STRS)
	if r < 0.6:
		return f'{gen_expr(rnd, depth - 1)} {rnd.choice(["+", "-", "*", "/", "%", "==", "!=", "<=", ">=", "<", ">", "&", "|", "^", "<<", ">>", "**"])} {gen_expr(rnd, depth - 1)}'
	if r < 0.75:
		return f'{rnd.choice(NAMES)}({gen_expr(rnd, depth - 1)}, {gen_expr(rnd, depth - 1)})'
	if r < 0.85:
		return f'[{gen_expr(rnd, depth - 1)},\n{" " * rnd.choice([0, 3, 7])}{gen_expr(rnd, depth - 1)}]'
	if r < 0.93:
		return f'-{rnd.choice(NAMES + NUMS)}'
	return f'{{{rnd.choice(STRS)}: {gen_expr(rnd, depth - 1)}}}'


def gen_block(rnd, indent, depth, unit):
	lines = []
	for _ in range(rnd.randint(1, 3)):
		r = rnd.random()
		if depth > 0 and r < 0.35:
			lines.append(f'{unit * indent}if {gen_expr(rnd, 1)}:')
			lines += gen_block(rnd, indent + 1, depth - 1, unit)
		else:
			lines.append(f'{unit * indent}{rnd.choice(NAMES)} {rnd.choice(["=", "+=", "-=", "*=", ":="]) if rnd.random() < 0.9 else "="} {gen_expr(rnd)}')
	return lines


def gen_source(rnd, unit='\t', bracket_first=False):
	lines = []
	if bracket_first:
		lines.append(f'{rnd.choice(NAMES)} = f(a,\n{" " * rnd.choice([4, 7, 9])}b)')
	lines += gen_block(rnd, 0, 3, unit)
	return '\n'.join(lines) + '\n'


def tranp_tokens(source):
	from rogw.tranp.implements.syntax.tranp.tokenizer import Tokenizer
	from rogw.tranp.implements.syntax.tranp.token import TokenTypes
	out = []
	for t in Tokenizer().parse(source):
		if t.type == TokenTypes.NewLine:
			out.append(('NEWLINE', ''))
		elif t.type == TokenTypes.Indent:
			out.append(('INDENT', ''))
		elif t.type == TokenTypes.Dedent:
			out.append(('DEDENT', ''))
		elif t.string == '\\OP_UNARY_MINUS':
			out.append(('TOK', '-'))  # documented exception: a minus not followed by a blank is marked unary
		else:
			out.append(('TOK', t.string))
	return out


def cpython_tokens(source):
	out = []
	for t in pytokenize.generate_tokens(io.StringIO(source).readline):
		if t.type in (pytok.NL, pytok.COMMENT, pytok.ENDMARKER, pytok.ENCODING):
			continue
		if t.type == pytok.NEWLINE:
			out.append(('NEWLINE', ''))
		elif t.type == pytok.INDENT:
			out.append(('INDENT', ''))
		elif t.type == pytok.DEDENT:
			out.append(('DEDENT', ''))
		elif t.type in (pytok.FSTRING_START, pytok.FSTRING_MIDDLE, pytok.FSTRING_END) if hasattr(pytok, 'FSTRING_START') else False:
			out.append(('FSTR', t.string))
		else:
			out.append(('TOK', t.string))
	# CPython 3.12 splits f-strings: glue the pieces back into one literal token
	glued, buf, depth = [], None, 0
	for kind, s in out:
		if kind == 'FSTR':
			buf = (buf or '') + s
			continue
		if buf is not None and kind == 'TOK' and not _fstring_done(buf):
			buf += s
			continue
		if buf is not None:
			glued.append(('TOK', buf))
			buf = None
		glued.append((kind, s))
	if buf is not None:
		glued.append(('TOK', buf))
	return glued


def _fstring_done(buf):
	q = buf.lstrip('rRfF')[:1]
	return len(buf.lstrip('rRfF')) >= 2 and buf.endswith(q)


def rewrites(source, rnd):
	"""Layout-preserving rewrites: comments, blank lines, trailing blanks, tab <-> spaces of a consistent width."""
	lines = source.split('\n')
	outs = []
	outs.append('\n'.join(l + '  ' if l else l for l in lines))                       # trailing spaces
	outs.append('\n'.join(l + '  # c' if l and not _inside_open_string(l) else l for l in lines))  # trailing comments
	outs.append(source.replace('\n', '\n\n', 1) if '\n' in source else source)      # a blank line
	for w in (2, 4, 8):
		outs.append('\n'.join(_retab(l, w) for l in lines))                           # tabs -> consistent space width
	outs.append('# head\n' + source)
	outs.append('\n'.join(l + '  #' if l and not _inside_open_string(l) else l for l in lines))   # trailing comments with an empty body
	outs.append('\n'.join(x for l in lines for x in (['#', l] if l and not l.startswith((' ', '\t')) and not _inside_open_string(l) else [l])))  # bare '#' lines before top-level lines
	return outs


def _inside_open_string(line):
	return line.count('"') % 2 == 1 or line.count("'") % 2 == 1


def _retab(line, w):
	n = len(line) - len(line.lstrip('\t'))
	return ' ' * (w * n) + line[n:]


def run(tier, seed):
	from rogw.tranp.implements.syntax.tranp.tokenizer import Lexer, Tokenizer
	from rogw.tranp.implements.syntax.tranp.token import TokenDefinition, TokenTypes
	rnd = random.Random(seed)
	fails, n, distinct = [], 0, set()
	total = 150 if tier == 'quick' else 1500
	for i in range(total):
		src = gen_source(rnd, '\t', bracket_first=(i % 5 == 0))
		if '\n\t' in src and i % 5 == 0:
			pass
		n += 1
		distinct.add(src)
		try:
			compile(src, '<gen>', 'exec')
		except SyntaxError:
			continue
		try:
			mine, ref = tranp_tokens(src), cpython_tokens(src)
		except Exception as e:  # noqa: BLE001
			fails.append({'source': src, 'what': f'tokenizer raised {type(e).__name__}: {str(e)[:120]}'})
			continue
		if mine != ref:
			k = next((j for j, (x, y) in enumerate(zip(mine, ref)) if x != y), min(len(mine), len(ref)))
			fails.append({'source': src, 'what': f'token sequence differs from CPython at #{k}: tranp {mine[k:k + 3]} vs CPython {ref[k:k + 3]}'})
			continue
		if sum(1 for k, _ in mine if k == 'INDENT') != sum(1 for k, _ in mine if k == 'DEDENT'):
			fails.append({'source': src, 'what': 'INDENT / DEDENT do not balance'})
		# raw lexer: partition and spans
		raw = Lexer(TokenDefinition()).parse_impl(src)
		text_of = lambda t: '-' if t.string == '\\OP_UNARY_MINUS' else t.string  # the unary-minus marker stands for the character '-'
		if ''.join(text_of(t) for t in raw) != src:
			fails.append({'source': src, 'what': 'concatenating the raw lexer tokens does not reproduce the source'})
		lines = src.split('\n')
		pos = 0
		for t in raw:
			sm = t.source_map
			off_b = sum(len(l) + 1 for l in lines[:sm.begin_line]) + sm.begin_column
			off_e = sum(len(l) + 1 for l in lines[:sm.end_line]) + sm.end_column
			if (off_b, off_e) != (pos, pos + len(text_of(t))):
				fails.append({'source': src, 'what': f'span of {t!r} addresses [{off_b}:{off_e}] but the token is at [{pos}:{pos + len(text_of(t))}]'})
				break
			pos += len(text_of(t))
		for rw in rewrites(src, rnd):
			try:
				if tranp_tokens(rw) != mine:
					fails.append({'source': src, 'rewrite': rw, 'what': 'significant token sequence changes under a layout-preserving rewrite'})
					break
			except Exception as e:  # noqa: BLE001
				fails.append({'source': rw, 'what': f'tokenizer raised {type(e).__name__} on a layout rewrite'})
				break
		if len(fails) >= 8:
			break
	# one Tokenizer instance used for several sources (as SyntaxParser does for the modules it parses): every parse must equal the parse of a fresh instance,
	# whatever indentation unit, open brackets or rejected input came before
	shared = Tokenizer()
	seq = []
	for j in range(12 if tier == 'quick' else 60):
		unit = rnd.choice(['\t', '    ', '  '])
		src = gen_source(rnd, '\t')
		src = '\n'.join(_retab(l, len(unit)) if unit != '\t' else l for l in src.split('\n'))
		if rnd.random() < 0.15:
			src = 'x = f(a, [b\n'  # an input that leaves brackets open
		seq.append(src)
		try:
			got = [(t.type, t.string) for t in shared.parse(src)]
		except Exception as e:  # noqa: BLE001
			got = f'{type(e).__name__}'
		try:
			want = [(t.type, t.string) for t in Tokenizer().parse(src)]
		except Exception as e:  # noqa: BLE001
			want = f'{type(e).__name__}'
		n += 1
		if got != want:
			fails.append({'source': src, 'history': seq[-3:], 'what': 'a Tokenizer instance that parsed other sources before gives another token sequence than a fresh instance'})
			break
	return n, len(distinct), fails
