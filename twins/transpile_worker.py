"""Worker (Python 3.13): transpile the given programs with the real Py2Cpp pipeline; prints JSON [{'ok': bool, 'text' | 'error': ...}]."""
import json
import os
import sys

REPO = os.environ.get('PYVC_REPO', '/repo')
sys.path.insert(0, REPO)
sys.path.insert(0, os.path.dirname(os.path.abspath(__file__)))
os.chdir(REPO)
sys.argv = [sys.argv[0], 'quick', '0'] + sys.argv[1:]

from cpp_worker import transpile  # noqa: E402


def main():
	programs = json.loads(sys.argv[3])
	out = []
	for src in programs:
		try:
			out.append({'ok': True, 'text': '\n'.join(transpile(src))})
		except Exception as e:  # noqa: BLE001
			out.append({'ok': False, 'error': f'{type(e).__module__}.{type(e).__qualname__}: {str(e)[:200]}'})
	print('RESULT ' + json.dumps(out))


if __name__ == '__main__':
	main()
