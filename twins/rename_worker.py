"""Worker for the C08 whole-pipeline twin (Python 3.13): transpile(r(P)) == r(transpile(P)) for consistent renamings r of
user-chosen identifiers (other lengths, other alphabetical order, names that are prefixes / suffixes of each other) on
programs that exercise classes with inheritance, base-typed variables holding derived objects, generic functions and methods
with several type variables, closures, enums, comprehensions.  Real Py2Cpp pipeline.  Prints one JSON object."""
import json
import os
import random
import re
import sys

REPO = os.environ.get('PYVC_REPO', '/repo')
sys.path.insert(0, REPO)
sys.path.insert(0, os.path.dirname(os.path.abspath(__file__)))
os.chdir(REPO)

from cpp_worker import transpile  # noqa: E402  (the same Fixture-based wiring as the C01 worker)

# programs over distinctive identifiers (none of them occurs in the runtime names tranp emits)
PROGRAMS = {
	'shapes': ('''from typing import Generic, TypeVar

T_Key = TypeVar('T_Key')
T_Item = TypeVar('T_Item')


class Figure:
	amount: int
	sides: int

	def __init__(self, amount: int, sides: int) -> None:
		self.amount = amount
		self.sides = sides

	def area(self) -> int:
		return self.amount * self.sides


class Quadrilateral(Figure):
	def area(self) -> int:
		return self.amount * 4


def build(count: int) -> int:
	first: Figure = Quadrilateral(count, 2)
	second = Figure(count, 3)
	another: Figure = Figure(count, 5)
	return first.area() + second.area() + another.area()


def pair_up(item: T_Item, key: T_Key) -> dict[T_Key, T_Item]:
	return {key: item}


class Holder:
	def pick(self, item: T_Item, key: T_Key) -> T_Key:
		return key
''', ['Figure', 'Quadrilateral', 'amount', 'sides', 'area', 'build', 'count', 'first', 'second', 'another', 'pair_up', 'item', 'key', 'T_Key', 'T_Item', 'Holder', 'pick']),
	'closures': ('''from enum import Enum


class Colour(Enum):
	Crimson = 0
	Teal = 1


def outer(base: int, scale: int) -> int:
	total = base
	def inner(step: int) -> int:
		return total + step * scale
	values = [inner(k) for k in range(scale)]
	picked = Colour.Teal
	if picked == Colour.Crimson:
		total += 1
	for value in values:
		total += value
	return total
''', ['Colour', 'Crimson', 'Teal', 'outer', 'base', 'scale', 'total', 'inner', 'step', 'values', 'picked', 'value']),
}

PROGRAMS['nested'] = ('''class Tree:
	class Leaf:
		weight: int

		def __init__(self, weight: int) -> None:
			self.weight = weight

	def grow(self, amount: int) -> int:
		leaf = Tree.Leaf(amount)
		leaves = [Tree.Leaf(1), leaf]
		return leaf.weight + leaves[0].weight


def merge(shape: Tree, factor: int, other: Tree) -> int:
	return shape.grow(factor) + other.grow(factor)
''', ['Tree', 'Leaf', 'weight', 'grow', 'amount', 'leaf', 'leaves', 'merge', 'shape', 'factor', 'other'])

POOL = ['Fig', 'Sh', 'Polygonal', 'zeta', 'a1', 'Alpha', 'omega_long_name', 'Tx', 'T_Anchor', 'T_Zed', 'mid', 'Qa', 'bb', 'Ccc', 'dddd', 'Ee_e', 'f6', 'Gamma', 'hh7', 'Iota', 'jk', 'Lam', 'mu_', 'Nu2', 'xi', 'Omicron', 'pi3', 'Rho']


def renamings(rnd, names, n):
	out = []
	# same lengths (a control), reversed alphabetical order, prefix relations, random
	out.append({x: x[::-1] if x[::-1].isidentifier() and x[::-1] not in names else x + '_' for x in names})
	sorted_names = sorted(names)
	fresh = sorted(rnd.sample(POOL, len(names)), reverse=True)
	out.append(dict(zip(sorted_names, fresh)))
	out.append({x: ('Node' + 'x' * i) for i, x in enumerate(names)})
	# names that end like the receiver parameters (self / cls) and inner names that start with the outer name
	tails = ['myself', 'subcls', 'scale__self', 'its_cls', 'oneself', 'Tcls']
	out.append({x: (tails[i] if i < len(tails) else 'Keep' + x) for i, x in enumerate(reversed(names))})
	out.append({x: (names[0] + '_' + x if i else names[0]) for i, x in enumerate(names)})
	for _ in range(n):
		out.append(dict(zip(names, rnd.sample(POOL, len(names)))))
	return out


def apply(text, mapping):
	"""rename identifiers (whole words); also inside the string literal of TypeVar('...') declarations"""
	if not mapping:
		return text
	pat = re.compile(r'\b(' + '|'.join(sorted(map(re.escape, mapping), key=len, reverse=True)) + r')\b')
	# two-phase to avoid chains (a -> b, b -> c)
	tmp = pat.sub(lambda m: f'\x00{m.group(1)}\x00', text)
	return re.sub('\x00([^\x00]+)\x00', lambda m: mapping[m.group(1)], tmp)


def main():
	tier, seed = sys.argv[1], int(sys.argv[2])
	rnd = random.Random(8_000 + seed)
	out = {'cases': 0, 'fails': []}
	for pname, (src, names) in PROGRAMS.items():
		try:
			base = '\n'.join(transpile(src))
		except Exception as e:  # noqa: BLE001
			out['fails'].append({'program': pname, 'what': f'the program is rejected: {type(e).__name__}: {str(e)[:160]}'})
			continue
		for m in renamings(rnd, names, 2 if tier == 'quick' else 12):
			if len(set(m.values())) != len(m) or set(m.values()) & (set(names) - set(m)):
				continue
			out['cases'] += 1
			try:
				got = '\n'.join(transpile(apply(src, m)))
			except Exception as e:  # noqa: BLE001
				out['fails'].append({'program': pname, 'renaming': m, 'what': f'the renamed program is rejected: {type(e).__name__}: {str(e)[:160]}'})
				continue
			want = apply(base, m)
			if got != want:
				gl, wl = got.split('\n'), want.split('\n')
				k = next((i for i, (a, b) in enumerate(zip(gl, wl)) if a != b), min(len(gl), len(wl)))
				out['fails'].append({'program': pname, 'renaming': m, 'what': f'transpile(r(P)) != r(transpile(P)) at line {k + 1}: {gl[k][:120] if k < len(gl) else "<end>"!r} vs {wl[k][:120] if k < len(wl) else "<end>"!r}'})
	print(json.dumps(out))


if __name__ == '__main__':
	main()
