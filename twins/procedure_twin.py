"""Bounded monitor for C09: an identity-valued Procedure over real modules; every handler must receive exactly the results of
its own children (per declared property, single vs list, in source order) and the run must end with exactly one result.
Also validates the assumed Node interface (prop_keys without duplicates, stable property values).  Never counted as proved."""
import os
import sys

REPO = os.environ.get('PYVC_REPO', '/repo')

SNIPPETS = [
	'x = 1\n',
	'class A:\n\tdef f(self, a: int) -> int:\n\t\tif a is not None:\n\t\t\treturn a + 1\n\t\treturn 0\n',
	'from typing import Generic, TypeVar\nT = TypeVar("T")\nclass B(Generic[T]): ...\nclass C(B[int]):\n\tdef m(self) -> "C":\n\t\treturn self\n',
	'def g(a: int, b: str = "s", *c: int) -> None:\n\tv = [1, (2, 3), {"k": a}]\n\tw = [y for y in v if y is not b]\n\tfor i in range(3):\n\t\tcontinue\n\twhile a not in [1]:\n\t\tbreak\n',
	'def h() -> None:\n\ttry:\n\t\tx = 1 if True else 2\n\texcept Exception as e:\n\t\traise\n\tz = lambda: 1\n\tdef inner(q: int) -> int:\n\t\treturn q\n',
	'from enum import Enum\nclass E(Enum):\n\tA = 0x10\n\tB = A + 1\nn = E.B.value\ns = "a" "b"\nt = a[1:2]\nu = a.b.c(d=1)(2)\n',
]


def run(tier: str, seed: int):
	"""Returns (nodes_visited, distinct_classes, failures)."""
	cwd = os.getcwd()
	os.chdir(REPO)
	if REPO not in sys.path:
		sys.path.insert(0, REPO)
	try:
		from tests.test.fixture import Fixture
		from rogw.tranp.semantics.procedure import Procedure
		fx = Fixture.make(f'{REPO}/tests/unit/rogw/tranp/semantics/test_reflections.py')
		sources = list(SNIPPETS)
		files = ['tests/unit/rogw/tranp/semantics/fixtures/fixture_reflections.py', 'example/json.py', 'rogw/tranp/compatible/libralies/classes.py']
		if tier == 'thorough':
			files += ['tests/unit/rogw/tranp/implements/cpp/transpiler/fixtures/fixture_py2cpp.py']
		for f in files:
			p = os.path.join(REPO, f)
			if os.path.exists(p):
				sources.append(open(p, encoding='utf-8').read())
		visited = 0
		classes = set()
		fails = []
		for src in sources:
			try:
				ep = fx.custom_module(src).entrypoint
			except Exception as e:  # noqa: BLE001 - a snippet outside the grammar is not this monitor's business
				continue
			proc = Procedure[object]()
			results: dict[str, object] = {}
			state = {'nested_ok': True}

			def on_fallback(node, **event):
				nonlocal visited
				visited += 1
				classes.add(type(node).__name__)
				keys = node.prop_keys()
				if len(keys) != len(set(keys)):
					fails.append({'node': node.full_path, 'what': f'duplicate prop_keys {keys}'})
				if sorted(event) != sorted(keys):
					fails.append({'node': node.full_path, 'cls': type(node).__name__, 'what': f'event keys {sorted(event)} != prop_keys {sorted(keys)}'})
				for k in keys:
					val = getattr(node, k)
					if isinstance(val, list):
						exp = [results.get(c.full_path, f'<no result for {c.full_path}>') for c in val]
					else:
						exp = results.get(val.full_path, f'<no result for {val.full_path}>')
					if event.get(k) != exp and len(fails) < 20:
						fails.append({'node': node.full_path, 'cls': type(node).__name__, 'prop': k, 'what': f'event[{k}] = {str(event.get(k))[:120]} but the children\'s results are {str(exp)[:120]}'})
				if visited % 97 == 0:
					# nested processing started from inside a handler must not disturb the outer run
					inner = Procedure[object]()
					inner.on('on_fallback', lambda node, **ev: 'inner')
					if inner.exec(node) != 'inner':
						state['nested_ok'] = False
				r = ('R', node.full_path)
				results[node.full_path] = r
				return r

			proc.on('on_fallback', on_fallback)
			try:
				out = proc.exec(ep)
				if out != ('R', ep.full_path):
					fails.append({'node': ep.full_path, 'what': f'final result {out!r} is not the root\'s'})
			except Exception as e:  # noqa: BLE001
				fails.append({'source': src[:80], 'what': f'processing failed: {type(e).__qualname__}: {str(e)[:200]}'})
			if not state['nested_ok']:
				fails.append({'what': 'nested exec disturbed'})
		return visited, len(classes), fails
	finally:
		os.chdir(cwd)
		import shutil
		shutil.rmtree(os.path.join(REPO, '.cache'), ignore_errors=True)
