"""Bounded monitor for C09: an identity-valued Procedure over real modules; every handler must receive exactly the results of
its own children (per declared property, single vs list, in source order) and the run must end with exactly one result.
Also validates the assumed Node interface (prop_keys without duplicates, stable property values).  Never counted as proved."""
import os
import sys

REPO = os.environ.get('PYVC_REPO', '/repo')

SNIPPETS = [
	'x = 1\n',
	'class A:\n\tdef f(self, a: int) -> int:\n\t\tif a is not None:\n\t\t\treturn a + 1\n\t\treturn 0\n',
	'from typing import Generic, TypeVar\nT = TypeVar("T")\nclass B(Generic[T]): ...\nclass C(B[int]):\n\tdef m(self) -> "C":\n\t\treturn self\n',
	'def g(a: int, b: str = "s", *c: int) -> None:\n\tv = [1, (2, 3), {"k": a}]\n\tw = [y for y in v if y is not b]\n\tfor i in range(3):\n\t\tcontinue\n\twhile a not in [1]:\n\t\tbreak\n',
	'def h() -> None:\n\ttry:\n\t\tx = 1 if True else 2\n\texcept Exception as e:\n\t\traise\n\tz = lambda: 1\n\tdef inner(q: int) -> int:\n\t\treturn q\n',
	'from enum import Enum\nclass E(Enum):\n\tA = 0x10\n\tB = A + 1\nn = E.B.value\ns = "a" "b"\nt = a[1:2]\nu = a.b.c(d=1)(2)\n',
]


def run(tier: str, seed: int):
	"""Returns (nodes_visited, distinct_classes, failures)."""
	cwd = os.getcwd()
	os.chdir(REPO)
	if REPO not in sys.path:
		sys.path.insert(0, REPO)
	try:
		from tests.test.fixture import Fixture
		from rogw.tranp.semantics.procedure import Procedure
		fx = Fixture.make(f'{REPO}/tests/unit/rogw/tranp/semantics/test_reflections.py')
		sources = list(SNIPPETS)
		files = ['tests/unit/rogw/tranp/semantics/fixtures/fixture_reflections.py', 'example/json.py', 'rogw/tranp/compatible/libralies/classes.py']
		if tier == 'thorough':
			files += ['tests/unit/rogw/tranp/implements/cpp/transpiler/fixtures/fixture_py2cpp.py']
		for f in files:
			p = os.path.join(REPO, f)
			if os.path.exists(p):
				sources.append(open(p, encoding='utf-8').read())
		visited = 0
		classes = set()
		fails = []
		for src in sources:
			try:
				ep = fx.custom_module(src).entrypoint
			except Exception as e:  # noqa: BLE001 - a snippet outside the grammar is not this monitor's business
				continue
			proc = Procedure[object]()
			results: dict[str, object] = {}
			state = {'nested_ok': True}

			def on_fallback(node, **event):
				nonlocal visited
				visited += 1
				classes.add(type(node).__name__)
				keys = node.prop_keys()
				if len(keys) != len(set(keys)):
					fails.append({'node': node.full_path, 'what': f'duplicate prop_keys {keys}'})
				if sorted(event) != sorted(keys):
					fails.append({'node': node.full_path, 'cls': type(node).__name__, 'what': f'event keys {sorted(event)} != prop_keys {sorted(keys)}'})
				for k in keys:
					val = getattr(node, k)
					if isinstance(val, list):
						exp = [results.get(c.full_path, f'<no result for {c.full_path}>') for c in val]
					else:
						exp = results.get(val.full_path, f'<no result for {val.full_path}>')
					if event.get(k) != exp and len(fails) < 20:
						fails.append({'node': node.full_path, 'cls': type(node).__name__, 'prop': k, 'what': f'event[{k}] = {str(event.get(k))[:120]} but the children\'s results are {str(exp)[:120]}'})
				if visited % 97 == 0:
					# nested processing started from inside a handler must not disturb the outer run
					inner = Procedure[object]()
					inner.on('on_fallback', lambda node, **ev: 'inner')
					if inner.exec(node) != 'inner':
						state['nested_ok'] = False
				r = ('R', node.full_path)
				results[node.full_path] = r
				return r

			proc.on('on_fallback', on_fallback)
			try:
				out = proc.exec(ep)
				if out != ('R', ep.full_path):
					fails.append({'node': ep.full_path, 'what': f'final result {out!r} is not the root\'s'})
			except Exception as e:  # noqa: BLE001
				fails.append({'source': src[:80], 'what': f'processing failed: {type(e).__qualname__}: {str(e)[:200]}'})
			if not state['nested_ok']:
				fails.append({'what': 'nested exec disturbed'})
		# ---- one long-lived Procedure across several runs: a later run must not depend on earlier ones (a reloaded module at the same path, a run that failed half-way)
		def structural(node, **event):
			kids = tuple((k, tuple(v) if isinstance(v, list) else v) for k, v in sorted(event.items()))
			return (type(node).__name__, node.full_path, node.tokens if not kids else '', kids)

		def fresh_result(ep):
			q = Procedure[object]()
			q.on('on_fallback', structural)
			return q.exec(ep)
		pairs = [('def f() -> int:\n\treturn 1 + 2\n', 'def g() -> int:\n\treturn 30 * 40 + 50\n'), ('a = [1, 2]\n', 'a = {"k": (3, 4)}\nb = a\n'), (SNIPPETS[1], SNIPPETS[3])]
		for first, second in pairs:
			longlived = Procedure[object]()
			longlived.on('on_fallback', structural)
			try:
				ep1 = fx.custom_module(first).entrypoint
				longlived.exec(ep1)
				ep2 = fx.custom_module(second).entrypoint  # same module path, reloaded with other source
				got, want = longlived.exec(ep2), fresh_result(ep2)
				visited += 1
				if got != want:
					fails.append({'history': [first, second], 'what': 'a Procedure that processed an earlier version of the module returns another result for the reloaded module than a fresh Procedure'})
			except Exception as e:  # noqa: BLE001
				fails.append({'history': [first, second], 'what': f'second run on a long-lived Procedure failed: {type(e).__qualname__}: {str(e)[:160]}'})
			# a run that fails in a handler after sibling results were produced, then another run
			failing = Procedure[object]()
			state2 = {'armed': True}

			def sometimes(node, **event):
				if state2['armed'] and type(node).__name__ in ('Integer', 'String') and node.tokens in ('2', '40', '4', '"s"'):
					raise ValueError('handler failure injected by the monitor')
				return structural(node, **event)
			failing.on('on_fallback', sometimes)
			try:
				ep = fx.custom_module(second).entrypoint
				try:
					failing.exec(ep)
				except Exception:  # noqa: BLE001 - the injected failure (wrapped by the Procedure)
					pass
				state2['armed'] = False
				got, want = failing.exec(ep), fresh_result(ep)
				visited += 1
				if got != want:
					fails.append({'history': [second + ' (handler fails)', second], 'what': 'a run after a failed run returns another result than a fresh Procedure'})
			except Exception as e:  # noqa: BLE001
				fails.append({'history': [second + ' (handler fails)', second], 'what': f'a run after a failed run fails: {type(e).__qualname__}: {str(e)[:160]}'})
		return visited, len(classes), fails
	finally:
		os.chdir(cwd)
		import shutil
		shutil.rmtree(os.path.join(REPO, '.cache'), ignore_errors=True)
