"""Closed check (by evaluation over the sources) for C04 / C06: a parameter with a mutable default value (list / dict / set display or constructor) is one
object shared by every call of the function - hidden per-process state.  Such a parameter must not be mutated in place, stored (attribute, subscript,
container method argument) or returned.  Read-only use is fine."""
import ast
import glob
import os

MUTATORS = {'append', 'extend', 'insert', 'pop', 'remove', 'clear', 'update', 'setdefault', 'popitem', 'add', 'discard', 'sort', 'reverse'}


def mutable_default(d):
	return isinstance(d, (ast.List, ast.Dict, ast.Set)) or (isinstance(d, ast.Call) and isinstance(d.func, ast.Name) and d.func.id in ('list', 'dict', 'set'))


def escapes(fn, name):
	"""why the shared default object can leak into later calls, or None"""
	for n in ast.walk(fn):
		if isinstance(n, ast.Call) and isinstance(n.func, ast.Attribute):
			if isinstance(n.func.value, ast.Name) and n.func.value.id == name and n.func.attr in MUTATORS:
				return f'{name}.{n.func.attr}(...) mutates it in place'
			if n.func.attr in ('append', 'extend', 'insert', 'add', 'update', 'setdefault') and any(isinstance(a, ast.Name) and a.id == name for a in n.args):
				return f'it is stored through .{n.func.attr}({name})'
		if isinstance(n, (ast.Assign, ast.AnnAssign, ast.AugAssign)):
			targets = n.targets if isinstance(n, ast.Assign) else [n.target]
			value = n.value
			for t in targets:
				if isinstance(t, ast.Subscript) and isinstance(t.value, ast.Name) and t.value.id == name:
					return f'{name}[...] is assigned'
				if isinstance(t, (ast.Attribute, ast.Subscript)) and isinstance(value, ast.Name) and value.id == name:
					return f'it is stored into {ast.unparse(t)}'
		if isinstance(n, ast.Return) and isinstance(n.value, ast.Name) and n.value.id == name:
			return 'it is returned'
	return None


def run(repo):
	n, bad = 0, []
	for f in sorted(glob.glob(os.path.join(repo, 'rogw', '**', '*.py'), recursive=True)):
		tree = ast.parse(open(f, encoding='utf-8').read())
		for fn in ast.walk(tree):
			if not isinstance(fn, (ast.FunctionDef, ast.AsyncFunctionDef)):
				continue
			a = fn.args
			pos = a.posonlyargs + a.args
			pairs = list(zip(pos[len(pos) - len(a.defaults):], a.defaults)) + [(p, d) for p, d in zip(a.kwonlyargs, a.kw_defaults) if d is not None]
			for p, d in pairs:
				if mutable_default(d):
					n += 1
					why = escapes(fn, p.arg)
					if why:
						bad.append({'file': os.path.relpath(f, repo), 'function': fn.name, 'parameter': p.arg, 'default': ast.unparse(d), 'why': why})
	return n, bad


if __name__ == '__main__':
	import sys
	print(run(sys.argv[1] if len(sys.argv) > 1 else '/repo'))
