"""Bounded twin for C10: tree addressing is a bijection; node queries agree with the tree; resolution is order independent.

Random lark trees with repeated / unique / empty child tags (also: the root's tag re-occurring below, tags that are textual
prefixes of other tags) are addressed through the real ASTFinder, EntryCache, Nodes and NodeResolver and compared with an
oracle computed directly on the tree.  Never counted as proved."""
import itertools
import os
import random
import sys

REPO = os.environ.get('PYVC_REPO', '/repo')
if REPO not in sys.path:
	sys.path.insert(0, REPO)

TAGS = ['root', 'a', 'tree_a', 'tree_ab', 'block', 'list', 'list_comp', 'skip']
RESOLVABLE = ['root', 'a', 'tree_a', 'tree_ab', 'block', 'list', 'list_comp', 'tok', '__empty__']


def gen_tree(rnd, depth, root_tag='root'):
	import lark
	def node(d, tag):
		if d <= 0 or rnd.random() < 0.25:
			r = rnd.random()
			if r < 0.15:
				return None
			return lark.Token(rnd.choice(['tok', 'tok', 'term']), rnd.choice(['v', 'w.x', '']))
		return lark.Tree(tag, [node(d - 1, rnd.choice(TAGS)) for _ in range(rnd.randint(0, 4))])
	return lark.Tree(root_tag, [node(depth - 1, rnd.choice(TAGS)) for _ in range(rnd.randint(1, 4))])


def oracle_paths(tree):
	"""(full path, lark entry) in pre-order, with the path format the statement describes: tag, or tag[index] when the tag is repeated among the siblings."""
	out = []
	def name(e):
		import lark
		if e is None:
			return '__empty__'
		return e.data if isinstance(e, lark.Tree) else e.type
	def walk(e, path):
		import lark
		out.append((path, e))
		if isinstance(e, lark.Tree):
			names = [name(c) for c in e.children]
			for i, c in enumerate(e.children):
				n = names[i]
				walk(c, f'{path}.{n}' if names.count(n) == 1 else f'{path}.{n}[{i}]')
	walk(tree, name(tree))
	return out


def make_nodes(tree):
	from rogw.tranp.implements.syntax.lark.entry import EntryOfLark
	from rogw.tranp.lang.di import DI
	from rogw.tranp.lang.locator import Invoker, Locator
	from rogw.tranp.module.types import ModulePath
	from rogw.tranp.providers.module import module_path_dummy
	from rogw.tranp.syntax.ast.entry import Entry
	from rogw.tranp.syntax.ast.resolver import SymbolMapping
	from rogw.tranp.syntax.ast.query import Query
	from rogw.tranp.syntax.node.node import Node
	from rogw.tranp.syntax.node.query import Nodes
	from rogw.tranp.syntax.node.resolver import NodeResolver
	classes = {t: type('N_' + t.strip('_'), (Node,), {}) for t in RESOLVABLE}
	term = type('N_terminal', (Node,), {})
	di = DI()
	di.bind(Locator, lambda: di)
	di.bind(Invoker, lambda: di.invoke)
	di.bind(Query[Node], Nodes)
	di.bind(NodeResolver, NodeResolver)
	di.bind(ModulePath, module_path_dummy)
	di.bind(SymbolMapping, lambda: SymbolMapping[Node](symbols={c: [t] for t, c in classes.items()}, fallback=term))
	di.bind(Entry, lambda: EntryOfLark(tree))
	return di.resolve(Query[Node]), classes, term


def de_index(elem):
	return elem.split('[')[0]


def check_tree(tree, rnd, fails, label):
	from rogw.tranp.errors import Errors
	from rogw.tranp.implements.syntax.lark.entry import EntryOfLark
	from rogw.tranp.syntax.ast.finder import ASTFinder
	exp = oracle_paths(tree)
	finder = ASTFinder()
	root = EntryOfLark(tree)
	got = finder.full_pathfy(root)
	# each entry has exactly one full path, in document order
	if list(got.keys()) != [p for p, _ in exp]:
		fails.append({'tree': label, 'what': f'full_pathfy keys differ from the pre-order listing: {list(got.keys())[:6]} vs {[p for p, _ in exp][:6]}'})
		return
	for p, e in exp:
		try:
			hit = finder.pluck(root, p)
			if hit.source is not e:
				fails.append({'tree': label, 'path': p, 'what': f'pluck({p}) returns another entry ({hit.name})'})
				return
			if not finder.exists(root, p):
				fails.append({'tree': label, 'path': p, 'what': f'exists({p}) is False for a path full_pathfy produced'})
				return
		except Errors.NodeNotFound:
			fails.append({'tree': label, 'path': p, 'what': f'pluck({p}) raises NodeNotFound for a path full_pathfy produced'})
			return
	# node queries against the tree, in two different query orders
	paths = [p for p, _ in exp]
	answers = []
	for order_seed in (0, 1):
		nodes, classes, term = make_nodes(tree)
		order = list(paths)
		random.Random(order_seed * 7919 + len(paths)).shuffle(order)
		ans = {}
		for p in order:
			elems = p.split('.')
			rec = {}
			n = nodes.by(p)
			rec['class'] = type(n).__name__
			rec['id'] = nodes.id(p)
			kids = [q for q in paths if q.startswith(p + '.') and q.count('.') == p.count('.') + 1]
			rec['children'] = [c.full_path for c in nodes.children(p)]
			if rec['children'] != kids:
				fails.append({'tree': label, 'path': p, 'what': f'children({p}) = {rec["children"]} but the tree has {kids}'})
				return
			if len(elems) > 1:
				up = '.'.join(elems[:-1])
				sibs = [q for q in paths if q.startswith(up + '.') and q.count('.') == p.count('.')]
				rec['siblings'] = [c.full_path for c in nodes.siblings(p)]
				if rec['siblings'] != sibs:
					fails.append({'tree': label, 'path': p, 'what': f'siblings({p}) = {rec["siblings"]} but the tree has {sibs}'})
					return
				exp_parent = None
				for k in range(len(elems) - 1, 0, -1):
					if de_index(elems[k - 1]) in RESOLVABLE:
						exp_parent = '.'.join(elems[:k])
						break
				try:
					rec['parent'] = nodes.parent(p).full_path
				except Errors.NodeNotFound:
					rec['parent'] = None
				if rec['parent'] != exp_parent:
					fails.append({'tree': label, 'path': p, 'what': f'parent({p}) = {rec["parent"]} but the nearest resolvable ancestor is {exp_parent}'})
					return
			# ancestor: two different tags asked on the same path, and an absent tag
			tags_here = [de_index(x) for x in elems]
			for tag in list(dict.fromkeys(reversed(tags_here[:-1])))[:2] + ['no_such_tag']:
				exp_anc = None
				for k in range(len(elems) - 1, -1, -1):
					if tags_here[k] == tag:
						exp_anc = '.'.join(elems[:k + 1])
						break
				try:
					got_anc = nodes.ancestor(p, tag).full_path
				except Errors.NodeNotFound:
					got_anc = None
				except Exception as e:  # noqa: BLE001
					fails.append({'tree': label, 'path': p, 'what': f'ancestor({p}, {tag}) raises {type(e).__name__} instead of NodeNotFound'})
					return
				rec[f'ancestor:{tag}'] = got_anc
				if got_anc != exp_anc:
					fails.append({'tree': label, 'path': p, 'what': f'ancestor({p}, {tag}) = {got_anc} but the tree says {exp_anc}'})
					return
			# expand: the convertible nodes below p, not descending into one already taken -- "below" by path elements, not by text
			exp_expand, taken = [], []
			for q in paths:
				if q == p or not q.startswith(p + '.') or q.count('.') - p.count('.') > 3:
					continue
				if any(q == t or q.startswith(t + '.') for t in taken):
					continue
				qe = q.split('.')
				ent = dict(exp)[q]
				import lark
				if de_index(qe[-1]) in RESOLVABLE:
					taken.append(q)
					exp_expand.append(q)
				elif not isinstance(ent, lark.Tree):
					rel = [de_index(x) for x in qe[len(elems):]]
					if not any(t in RESOLVABLE for t in rel):
						exp_expand.append(q)
			rec['expand'] = [c.full_path for c in nodes.expand(p)]
			if rec['expand'] != exp_expand:
				fails.append({'tree': label, 'path': p, 'what': f'expand({p}) = {rec["expand"]} but by path structure it is {exp_expand}'})
				return
			ans[p] = rec
		ids = [ans[p]['id'] for p in paths]
		if ids != sorted(ids) or len(set(ids)) != len(ids):
			fails.append({'tree': label, 'what': f'ids do not follow document order: {ids[:10]}'})
			return
		answers.append(ans)
	if answers[0] != answers[1]:
		p = next(p for p in paths if answers[0][p] != answers[1][p])
		fails.append({'tree': label, 'path': p, 'what': f'answers depend on the query order: {answers[0][p]} vs {answers[1][p]}'})


def run(tier, seed):
	rnd = random.Random(seed)
	fails = []
	n = 0
	import lark
	fixed = [
		lark.Tree('block', [lark.Tree('if_stmt', [lark.Tree('block', [lark.Token('tok', 'v')])]), lark.Tree('block', [])]),
		lark.Tree('a', [lark.Tree('tree_a', [lark.Tree('a', [])]), lark.Tree('tree_ab', [None, lark.Token('tok', 'x')])]),
		lark.Tree('root', [lark.Tree('list', [lark.Token('tok', '1')]), lark.Tree('list_comp', [lark.Token('tok', 'y')]), lark.Tree('list', [])]),
	]
	total = 40 if tier == 'quick' else 400
	for i in range(total):
		t = fixed[i] if i < len(fixed) else gen_tree(rnd, rnd.randint(1, 4), rnd.choice(['root', 'block', 'a']))
		n += 1
		check_tree(t, rnd, fails, f'#{i}: {str(t)[:160]}')
		if len(fails) >= 5:
			break
	return n, fails
