"""Worker for the C11 twin (Python 3.13): sentences generated from the constructs of data/syntax/py_gram.lark are parsed by
the self-hosted engine (SyntaxParser(py_rules())) and by CPython's ast; both trees are brought to one canonical form and
compared.  Mutated sentences must be rejected with Errors.Syntax (summary naming a token of the input and a line that
exists) or accepted with the matching tree.  Prints one JSON object."""
import ast
import json
import os
import random
import re
import signal
import sys
import time

REPO = os.environ.get('PYVC_REPO', '/repo')
sys.path.insert(0, REPO)
os.chdir(REPO)

from data.syntax.py_rules import py_rules  # noqa: E402
from rogw.tranp.errors import Errors  # noqa: E402
from rogw.tranp.implements.syntax.tranp.rule import Comps, Pattern, Patterns, Roles  # noqa: E402
from rogw.tranp.implements.syntax.tranp.syntax import SyntaxParser  # noqa: E402


class Timeout(Exception):
	pass


def _alarm(signum, frame):
	raise Timeout()


def limited(seconds, f, *a):
	signal.signal(signal.SIGALRM, _alarm)
	signal.alarm(seconds)
	try:
		return f(*a)
	finally:
		signal.alarm(0)


# ------------------------------------------------------------------ canonical form of CPython's tree
CMP = {ast.Lt: '<', ast.Gt: '>', ast.Eq: '==', ast.LtE: '<=', ast.GtE: '>=', ast.NotEq: '!=', ast.In: 'in', ast.NotIn: 'not in', ast.Is: 'is', ast.IsNot: 'is not'}
BIN = {ast.Add: '+', ast.Sub: '-', ast.Mult: '*', ast.Div: '/', ast.Mod: '%'}


def c_ast(n):
	if isinstance(n, ast.Module):
		return ['module'] + [c_ast(s) for s in n.body]
	if isinstance(n, ast.Expr):
		return c_ast(n.value)
	if isinstance(n, ast.Assign) and len(n.targets) == 1:
		return ['assign', c_ast(n.targets[0]), c_ast(n.value)]
	if isinstance(n, ast.Return):
		return ['return'] + ([c_ast(n.value)] if n.value is not None else [])
	if isinstance(n, ast.Raise) and n.cause is None and n.exc is not None:
		return ['raise', c_ast(n.exc)]
	if isinstance(n, ast.Break):
		return ['break']
	if isinstance(n, ast.Continue):
		return ['continue']
	if isinstance(n, ast.If):
		out = ['if', [c_ast(n.test), [c_ast(s) for s in n.body]]]
		rest = n.orelse
		while len(rest) == 1 and isinstance(rest[0], ast.If) and getattr(rest[0], '_elif', True) and rest[0].col_offset == n.col_offset:
			out.append([c_ast(rest[0].test), [c_ast(s) for s in rest[0].body]])
			rest = rest[0].orelse
		if rest:
			out.append(['else', [c_ast(s) for s in rest]])
		return out
	if isinstance(n, ast.For) and not n.orelse:
		t = n.target
		names = [e.id for e in t.elts] if isinstance(t, ast.Tuple) else [t.id]
		return ['for', names, c_ast(n.iter), [c_ast(s) for s in n.body]]
	if isinstance(n, ast.While) and not n.orelse:
		return ['while', c_ast(n.test), [c_ast(s) for s in n.body]]
	if isinstance(n, ast.FunctionDef):
		ps = []
		nd = len(n.args.defaults)
		for i, a in enumerate(n.args.args):
			d = n.args.defaults[i - (len(n.args.args) - nd)] if i >= len(n.args.args) - nd else None
			ps.append([a.arg, c_type(a.annotation)] + ([c_ast(d)] if d is not None else []))
		return ['def', n.name, ps, c_type(n.returns), [c_ast(s) for s in n.body]]
	# expressions
	if isinstance(n, ast.BoolOp):
		return ['or' if isinstance(n.op, ast.Or) else 'and'] + [c_ast(v) for v in n.values]
	if isinstance(n, ast.UnaryOp) and isinstance(n.op, ast.Not):
		return ['not', c_ast(n.operand)]
	if isinstance(n, ast.UnaryOp) and isinstance(n.op, ast.USub):
		return ['neg', c_ast(n.operand)]
	if isinstance(n, ast.Compare):
		return ['cmp', c_ast(n.left)] + [[CMP[type(o)], c_ast(c)] for o, c in zip(n.ops, n.comparators)]
	if isinstance(n, ast.BinOp) and type(n.op) in BIN:
		return ['bin', BIN[type(n.op)], c_ast(n.left), c_ast(n.right)]
	if isinstance(n, ast.IfExp):
		return ['ifexp', c_ast(n.test), c_ast(n.body), c_ast(n.orelse)]
	if isinstance(n, ast.NamedExpr):
		return ['walrus', c_ast(n.target), c_ast(n.value)]
	if isinstance(n, ast.Lambda):
		return ['lambda', [a.arg for a in n.args.args], c_ast(n.body)]
	if isinstance(n, ast.Attribute):
		return ['attr', c_ast(n.value), n.attr]
	if isinstance(n, ast.Call):
		args = [['pos', c_ast(a)] if not isinstance(a, ast.Starred) else ['*', c_ast(a.value)] for a in n.args]
		args += [['kw', k.arg, c_ast(k.value)] if k.arg is not None else ['**', c_ast(k.value)] for k in n.keywords]
		# CPython separates positional and keyword arguments; source order is recovered from the positions
		order = sorted(list(n.args) + [k for k in n.keywords], key=lambda x: (x.lineno, x.col_offset) if not isinstance(x, ast.keyword) else (x.value.lineno, x.value.col_offset))
		byid = {id(x): a for x, a in zip(list(n.args) + list(n.keywords), args)}
		return ['call', c_ast(n.func)] + [byid[id(x)] for x in order]
	if isinstance(n, ast.Subscript):
		if isinstance(n.slice, ast.Slice):
			return ['index', c_ast(n.value)] + [c_ast(p) for p in (n.slice.lower, n.slice.upper, n.slice.step) if p is not None]
		return ['index', c_ast(n.value), c_ast(n.slice)]
	if isinstance(n, ast.Name):
		return ['var', n.id]
	if isinstance(n, ast.Constant):
		if n.value is Ellipsis:
			return ['pass']
		if n.value is None:
			return ['none']
		if isinstance(n.value, bool):
			return ['bool', str(n.value)]
		if isinstance(n.value, str):
			return ['str', n.value]
		return ['num', repr(n.value)]
	if isinstance(n, ast.List):
		return ['list'] + [c_ast(e) for e in n.elts]
	if isinstance(n, ast.Tuple):
		return ['tuple'] + [c_ast(e) for e in n.elts]
	if isinstance(n, ast.Dict):
		return ['dict'] + [[c_ast(k), c_ast(v)] for k, v in zip(n.keys, n.values)]
	raise ValueError(f'construct outside the compared subset: {type(n).__name__}')


def c_type(n):
	if n is None:
		return None
	if isinstance(n, ast.Constant) and n.value is None:
		return 'None'
	return n.id


# ------------------------------------------------------------------ canonical form of the engine's tree
def is_tok(e):
	return isinstance(e[1], str)


def fold_left(items):
	"""[a, op, b, op, c] -> ((a op b) op c)"""
	acc = c_tr(items[0])
	i = 1
	while i < len(items):
		acc = ['bin', items[i][1], acc, c_tr(items[i + 1])]
		i += 2
	return acc


def op_text(e):
	"""op_comp tree -> comparison operator text"""
	words = []
	for ch in e[1]:
		words.append(ch[1] if is_tok(ch) else ' '.join(x[1] for x in ch[1]))
	return ' '.join(w for w in words if w)


def c_tr(e):
	name = e[0]
	if is_tok(e):
		v = e[1]
		if name == 'name':
			return ['name', v]
		if name == 'boolean':
			return ['bool', v]
		if name == 'none':
			return ['none']
		if name == 'string':
			return ['str', ast.literal_eval(v)]
		if name in ('digit', 'decimal'):
			return ['num', repr(ast.literal_eval(v))]
		if name == 'break':
			return ['break']
		if name == 'continue':
			return ['continue']
		if name == 'pass':
			return ['pass']
		if name == '__empty__':
			return ['empty']
		raise ValueError(f'unexpected token entry {e}')
	ch = e[1]
	if name == 'entry':
		return ['module'] + [c_tr(c) for c in ch]
	if name == 'var':
		return ['var', ch[0][1]]
	if name in ('comp_or', 'comp_and'):
		return ['or' if name == 'comp_or' else 'and'] + [c_tr(c) for c in ch[0::2]]
	if name == 'comp_not':
		return ['not', c_tr(ch[1])]
	if name == 'comp':
		return ['cmp', c_tr(ch[0])] + [[op_text(ch[i]) if not is_tok(ch[i]) else ch[i][1], c_tr(ch[i + 1])] for i in range(1, len(ch), 2)]
	if name in ('calc_sum', 'calc_mul'):
		return fold_left(ch)
	if name == 'unary':
		return ['neg', c_tr(ch[1])]
	if name == 'ternary':
		return ['ifexp', c_tr(ch[1]), c_tr(ch[0]), c_tr(ch[2])]
	if name == 'expr_move':
		return ['walrus', c_tr(ch[0]), c_tr(ch[1])]
	if name == 'lambda':
		names = [c[1] for c in ch[:-1] if is_tok(c) and c[0] == 'name']
		return ['lambda', names, c_tr(ch[-1])]
	if name == 'relay':
		return ['attr', c_tr(ch[0]), ch[1][1]]
	if name == 'invoke':
		args, i, rest = [], 0, [c for c in ch[1:] if c[0] != '__empty__']
		while i < len(rest):
			c = rest[i]
			if is_tok(c) and c[0] == 'name':
				args.append(['kw', c[1], c_tr(rest[i + 1])])
				i += 2
			elif is_tok(c) and c[0] == 'packing':
				args.append([c[1], c_tr(rest[i + 1])])
				i += 2
			else:
				args.append(['pos', c_tr(c)])
				i += 1
		return ['call', c_tr(ch[0])] + args
	if name == 'indexer':
		return ['index', c_tr(ch[0])] + [c_tr(c) for c in ch[1:]]
	if name == 'list':
		return ['list'] + [c_tr(c) for c in ch if c[0] != '__empty__']
	if name == 'tuple':
		return ['tuple'] + [c_tr(c) for c in ch]
	if name == 'dict':
		return ['dict'] + [[c_tr(kv[1][0]), c_tr(kv[1][1])] for kv in ch if kv[0] != '__empty__']
	if name == 'move':
		*target, value = ch
		if len(target) == 1:
			t = ['var', target[0][1]]
		elif is_tok(target[-1]) and target[-1][0] == 'name' and len(target) == 2:
			t = ['attr', c_tr(target[0]), target[1][1]]
		else:
			t = ['index', c_tr(target[0])] + [c_tr(c) for c in target[1:]]
		return ['assign', t, c_tr(value)]
	if name == 'return':
		return ['return'] + [c_tr(c) for c in ch if c[0] != '__empty__']
	if name == 'raise':
		return ['raise', c_tr(ch[0])]
	if name == 'if':
		out = ['if']
		for c in ch:
			if c[0] == '__empty__':
				continue
			if c[0] == 'else':
				out.append(['else', c_block(c[1][0])])
			else:
				out.append([c_tr(c[1][0]), c_block(c[1][1])])
		return out
	if name == 'for':
		names = [c[1] for c in ch[:-2]]
		return ['for', names, c_tr(ch[-2]), c_block(ch[-1])]
	if name == 'while':
		return ['while', c_tr(ch[0]), c_block(ch[1])]
	if name == 'function':
		fname, params, rtype, block = ch[0][1], ch[1], ch[2], ch[3]
		ps = []
		if params[0] != '__empty__':
			for p in params[1]:
				pc = p[1]
				ps.append([pc[0][1], t_type(pc[1])] + ([c_tr(pc[2])] if len(pc) > 2 and pc[2][0] != '__empty__' else []))
		return ['def', fname, ps, t_type(rtype), c_block(block)]
	raise ValueError(f'unexpected tree entry {name}')


def t_type(e):
	if e[0] == '__empty__':
		return None
	if e[0] == 'type_none':
		return 'None'
	return e[1][0][1]


def c_block(e):
	return [c_tr(c) for c in e[1]]


def norm(x):
	"""names in value position: the engine tags plain names in a few places as tokens"""
	if isinstance(x, list):
		if len(x) == 2 and x[0] == 'name':
			return ['var', x[1]]
		return [norm(y) for y in x]
	return x


# ------------------------------------------------------------------ sentence generator
NAMES = ['a', 'b', 'c', 'x1', 'val', 'f', 'obj']


def g_atom(r, d):
	k = r.random()
	if k < 0.35 or d <= 0:
		return r.choice(NAMES)
	if k < 0.45:
		return r.choice(['0', '1', '23', '4.5', '0.25'])
	if k < 0.52:
		return r.choice(["'s'", '"t"', "''", "'a b'"])
	if k < 0.58:
		return r.choice(['True', 'False', 'None'])
	if k < 0.66:
		return '[' + ', '.join(g_expr(r, d - 1) for _ in range(r.randint(0, 3))) + ']'
	if k < 0.72:
		return '(' + ', '.join(g_expr(r, d - 1) for _ in range(r.randint(2, 3))) + ')'
	if k < 0.78:
		return '{' + ', '.join(f"'k{i}': " + g_expr(r, d - 1) for i in range(r.randint(0, 2))) + '}'
	return '(' + g_expr(r, d - 1) + ')'


def g_primary(r, d):
	p = g_atom(r, d)
	if p[0] in '0123456789':
		return p
	for _ in range(r.choice([0, 0, 1, 1, 2, 3])):
		k = r.random()
		if k < 0.35 or d <= 0:
			p += '.' + r.choice(NAMES)
		elif k < 0.75:
			args = []
			for _ in range(r.randint(0, 3)):
				args.append(g_expr(r, d - 1))
			kws = [f'{r.choice(["k", "key", "n"])}{i}=' + g_expr(r, d - 1) for i in range(r.choice([0, 0, 1, 2]))]
			if r.random() < 0.15:
				args.append('*' + r.choice(NAMES))
			if r.random() < 0.15:
				kws.append('**' + r.choice(NAMES))
			p += '(' + ', '.join(args + kws) + ')'
		else:
			p += '[' + ':'.join(g_expr(r, d - 1) for _ in range(r.choice([1, 1, 1, 2, 3]))) + ']'
	return p


def g_unary(r, d):
	return ('-' if r.random() < 0.15 else '') + g_primary(r, d)


def g_chain(r, d, sub, ops, p):
	out = sub(r, d)
	while r.random() < p:
		out += ' ' + r.choice(ops) + ' ' + sub(r, d)
	return out


def g_mul(r, d):
	return g_chain(r, d, g_unary, ['*', '/', '%'], 0.25)


def g_sum(r, d):
	return g_chain(r, d, g_mul, ['+', '-'], 0.3)


def g_comp(r, d):
	return g_chain(r, d, g_sum, ['<', '>', '==', '<=', '>=', '!=', 'in', 'not in', 'is', 'is not'], 0.2)


def g_not(r, d):
	return ('not ' if r.random() < 0.2 else '') + g_comp(r, d)


def g_and(r, d):
	return g_chain(r, d, g_not, ['and'], 0.2)


def g_or(r, d):
	return g_chain(r, d, g_and, ['or'], 0.2)


def g_expr(r, d):
	k = r.random()
	if d > 0 and k < 0.08:
		return g_or(r, d - 1) + ' if ' + g_or(r, d - 1) + ' else ' + g_or(r, d - 1)
	if d > 0 and k < 0.12:
		return 'lambda' + (' ' + ', '.join(r.sample(NAMES, r.randint(1, 2))) if r.random() < 0.7 else '') + ': ' + g_or(r, d - 1)
	return g_or(r, d)


def g_line(r, d):
	k = r.random()
	if k < 0.08:
		return r.choice(['break', 'continue', '...'])
	if k < 0.2:
		return 'return' + (' ' + g_expr(r, d) if r.random() < 0.8 else '')
	if k < 0.26:
		return 'raise ' + g_primary(r, d)
	if k < 0.7:
		t = r.choice(NAMES)
		k2 = r.random()
		if k2 < 0.2:
			t += '.' + r.choice(NAMES)
		elif k2 < 0.35:
			t += '[' + g_expr(r, d - 1) + ']'
		return t + ' = ' + g_expr(r, d)
	return g_expr(r, d)


def g_block(r, d, depth, ind, unit):
	out = []
	for _ in range(r.randint(1, 3)):
		out += g_stmt(r, d, depth, ind, unit)
	return out


def g_stmt(r, d, depth, ind, unit):
	k = r.random()
	pad = unit * ind
	if depth <= 0 or k < 0.6:
		return [pad + g_line(r, d)]
	if k < 0.75:
		out = [pad + 'if ' + g_expr(r, d) + ':'] + g_block(r, d, depth - 1, ind + 1, unit)
		for _ in range(r.choice([0, 0, 1, 2])):
			out += [pad + 'elif ' + g_expr(r, d) + ':'] + g_block(r, d, depth - 1, ind + 1, unit)
		if r.random() < 0.5:
			out += [pad + 'else:'] + g_block(r, d, depth - 1, ind + 1, unit)
		return out
	if k < 0.83:
		return [pad + 'for ' + ', '.join(r.sample(NAMES, r.randint(1, 2))) + ' in ' + g_primary(r, d) + ':'] + g_block(r, d, depth - 1, ind + 1, unit)
	if k < 0.9:
		return [pad + 'while ' + g_expr(r, d) + ':'] + g_block(r, d, depth - 1, ind + 1, unit)
	ps = ', '.join(f'p{i}: {r.choice(["int", "str", "T"])}' + (f' = {g_primary(r, 0)}' if r.random() < 0.3 else '') for i in range(r.randint(0, 3)))
	return [pad + f'def fn{r.randint(0, 9)}({ps}) -> {r.choice(["int", "None", "T"])}:'] + g_block(r, d, depth - 1, ind + 1, unit)


def g_program(r):
	unit = r.choice(['\t', '    ', '  '])
	lines = []
	for _ in range(r.randint(1, 3)):
		lines += g_stmt(r, r.randint(0, 2), r.randint(0, 2), 0, unit)
	return '\n'.join(lines) + '\n'


FIXED = [
	'x = not (a)\n', 'x = a and not (b)\n', 'x = a is not (b)\n', 'x = not [a]\n', 'x = a or (b and c)\n', 'x = a and (b or c)\n', 'x = a is (b)\n',
	'x = a - -b\n', 'x = -a.b\n', 'x = a if b else (c if d else e)\n', 'x = (y := a + 1)\n', 'f(a, *b, k=c, **d)\n', 'x = a[1:2]\n', 'a.b[c].d(e)(f)\n',
	'x = a < b < c\n', 'x = a not in b\n', 'x = lambda: a\n', 'x = lambda a, b: a if b else a\n', "x = {'k': [1, (2, 3)]}\n",
	'if a:\n\tx = 1\nelif b:\n\tx = 2\nelse:\n\tx = 3\n', 'if a:\n    x = 1\n    if b:\n        y = 2\nz = 3\n',
	'for i, j in f(a):\n  x = i\n', 'while a > 0:\n\ta = a - 1\n\tcontinue\n', 'def fn(a: int, b: str = "s") -> None:\n\treturn a\n', 'def g() -> int:\n    return\n',
]


def mutate(r, s):
	k = r.random()
	i = r.randrange(len(s))
	if k < 0.35:
		return s[:i] + s[i + 1:]
	if k < 0.7:
		return s[:i] + r.choice(['(', ')', '[', ']', ',', ':', '=', ' if ', ' not ', '+', '.']) + s[i:]
	j = r.randrange(len(s))
	i, j = min(i, j), max(i, j)
	return s[:i] + s[j:]


def check_summary(msg, source):
	"""the summary names a token of the input and a line that exists"""
	m = re.match(r"pass: (\d+)/(\d+), token: (.*)\n\((\d+)\) >>> (.*)\n", msg)
	if not m:
		return f'summary has another shape: {msg[:80]!r}'
	tok = ast.literal_eval(m.group(3))
	line_no, line = int(m.group(4)), m.group(5)
	lines = source.split('\n')
	if not (0 <= line_no <= len(lines)):
		return f'summary quotes line {line_no} of a {len(lines)}-line text'
	if line not in lines:
		return f'summary quotes a line that is not in the text: {line!r}'
	if tok not in source + '\n' and not tok.startswith('\\'):
		return f'summary names a token that is not in the text: {tok!r}'
	return None


def main():
	tier, seed = sys.argv[1], int(sys.argv[2])
	r = random.Random(11_000 + seed)
	out = {'slow': [], 'cases': 0, 'mutants': 0, 'rejected': 0, 'looser': 0, 'skipped': 0, 'fails': [], 'closed': []}
	rules = py_rules()
	# ---- closed: the keyword list is exactly the set of string terminals of the rule set (own traversal)
	want = []

	def walk(p):
		if isinstance(p, Patterns):
			for x in p.entries:
				walk(x)
		elif p.role == Roles.Terminal and p.comp == Comps.Equals and p.expression not in want:
			want.append(p.expression)
	for k in rules.org_symbols():
		walk(rules._rules[k])
	got = list(rules.keywords)
	regs = []

	def walk2(p):
		if isinstance(p, Patterns):
			for x in p.entries:
				walk2(x)
		elif p.role == Roles.Terminal and p.comp == Comps.Regexp:
			regs.append(p.expression)
	for k in rules.org_symbols():
		walk2(rules._rules[k])
	missing = [w for w in want if w not in got]
	out['closed'].append({'name': 'Rules.keywords of the shipped Python rule set holds every string terminal of the rules (so that no keyword can match a regexp terminal)', 'ok': not missing, 'detail': f'missing: {missing[:6]}'})
	n = 150 if tier == 'quick' else 1500
	t0 = time.time()
	budget = 40 if tier == 'quick' else 600
	programs = list(FIXED) + [g_program(r) for _ in range(n)]
	for src in programs:
		if time.time() - t0 > budget:
			break
		try:
			want_tree = norm(c_ast(ast.parse(src)))
		except (SyntaxError, ValueError):
			continue
		out['cases'] += 1
		res = run_one(src)
		if res[0] == 'timeout':
			out['skipped'] += 1
			continue
		if res[0] in ('error', 'syntax'):
			out['fails'].append({'what': f'a sentence of the grammar is not accepted: {res[1][:160]}', 'source': src})
			continue
		if res[1] != want_tree:
			out['fails'].append({'what': 'tree differs from CPython\'s', 'source': src, 'engine': json.dumps(res[1])[:300], 'cpython': json.dumps(want_tree)[:300]})
			continue
		# mutants of an accepted sentence
		for _ in range(2):
			m = mutate(r, src)
			if m == src or not m.strip():
				continue
			out['mutants'] += 1
			res = run_one(m)
			if res[0] == 'timeout':
				out['skipped'] += 1
			elif res[0] == 'syntax':
				out['rejected'] += 1
				bad = check_summary(res[1], m)
				if bad:
					out['fails'].append({'what': bad, 'source': m})
			elif res[0] == 'error':
				out['fails'].append({'what': f'text outside the grammar is not rejected with Errors.Syntax but with {res[1][:120]}', 'source': m})
			else:
				try:
					wt = norm(c_ast(ast.parse(m)))
				except (SyntaxError, ValueError):
					out['looser'] += 1
					continue
				if res[1] != wt:
					out['fails'].append({'what': 'tree of an accepted mutant differs from CPython\'s', 'source': m, 'engine': json.dumps(res[1])[:300], 'cpython': json.dumps(wt)[:300]})
	out['seconds'] = round(time.time() - t0, 1)
	out['slow'] = SLOW[:8]
	print(json.dumps(out))


def run_one(src):
	t1 = time.time()
	try:
		return _run_one(src)
	finally:
		if time.time() - t1 > 0.5:
			SLOW.append((round(time.time() - t1, 1), src[:60]))


SLOW = []


def _run_one(src):
	try:
		tree = limited(2, lambda: SyntaxParser(py_rules()).parse(src, 'entry').simplify())
	except Timeout:
		return ('timeout', '')
	except Errors.Syntax as e:
		return ('syntax', str(e.args[0]) if e.args else '')
	except Exception as e:  # noqa: BLE001
		return ('error', f'{type(e).__name__}: {e}')
	try:
		return ('tree', norm(c_tr(tree)))
	except Exception as e:  # noqa: BLE001
		return ('error', f'tree not in the expected shape: {type(e).__name__}: {e}; {json.dumps(tree)[:200]}')


if __name__ == '__main__':
	main()
