#!/bin/sh
# Build the tooling venv (python 3.12: the repo's syntax needs >= 3.12; z3/cvc5 from the offline wheelhouse).
set -e
cd "$(dirname "$0")"
if [ ! -x .venv/bin/python ] || ! .venv/bin/python -c "import z3, cvc5" 2>/dev/null; then
	rm -rf .venv
	/root/.pyenv/versions/3.12.1/bin/python -m venv .venv
	PIP_NO_INDEX=1 .venv/bin/pip install -q --no-index --find-links /opt/veriftools/wheels z3-solver cvc5 crosshair-tool deal icontract hypothesis jsonschema
	echo "import site; site.addsitedir('/venv/lib/python3.12/site-packages')" > .venv/lib/python3.12/site-packages/_repo_deps.pth
fi
.venv/bin/python -c "import z3, cvc5, lark, jinja2, yaml; print('venv ok', z3.get_version_string(), cvc5.__version__)"
