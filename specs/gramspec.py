"""Spec vocabulary for C12: the textual form of one matching pattern (terminal quoting and the four control-code escapes)."""
from __future__ import annotations

from pyvc.api import const, external, record, ref, spec, implies

RULE = 'rogw/tranp/implements/syntax/tranp/rule.py'

# Enum members are modelled by their values; the values are read from the real classes when the spec is loaded
import os as _os, sys as _sys
_sys.path.insert(0, _os.environ.get('PYVC_REPO', '/repo'))
from rogw.tranp.implements.syntax.tranp.rule import Comps as _Comps, Roles as _Roles  # noqa: E402
NOCOMP = const('NOCOMP', _Comps.NoComp.value)
REGEXP = const('REGEXP', _Comps.Regexp.value)
EQUALS = const('EQUALS', _Comps.Equals.value)
SYMBOL = const('SYMBOL', _Roles.Symbol.value)
TERMINAL = const('TERMINAL', _Roles.Terminal.value)
ref('PatEntry')
ref('Memo')
record('Rules', {'_rules': 'dict[str, PatEntry]', '_memo': 'Memo'}, source=(RULE, 'Rules'))
record('Pattern', {'_expression': 'str', '_role': 'int', '_comp': 'int'}, source=(RULE, 'Pattern'))

external('is_word', [('s', 'str')], 'bool', axioms=[
	({'s': 'str'}, "implies(is_word(s), len(s) > 0 and not s.startswith('\"') and not s.startswith('/'))"),
], note="re.fullmatch(r'\\w[\\w\\d]*', s) is not None: a non-empty run of word characters (so it starts with neither a quote nor a slash)")


@spec
def unescape(body: str) -> str:
	"""The four control codes the grammar text can only write as an escape."""
	if body == '\\t':
		return '\t'
	if body == '\\f':
		return '\f'
	if body == '\\r':
		return '\r'
	if body == '\\n':
		return '\n'
	return body


@spec
def printed(e: str, comp: int) -> str:
	"""The printer's text of a pattern."""
	if comp == REGEXP:
		return '/' + e + '/'
	if comp == EQUALS:
		return '"' + e + '"'
	return e


@spec
def unwrap_of(r: Rules, name: str) -> str:
	"""The unwrap marker under which a symbol's rule is stored: none ('off'), [1] or [*]."""
	if name in r._rules:
		return 'off'
	if name + '[1]' in r._rules:
		return '1'
	return '*'
