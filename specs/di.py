"""Spec functions for C19 (dependency container): the abstract view and its well-formedness."""
from __future__ import annotations

from pyvc.api import spec, external, ref, union, record, alias

DIPY = 'rogw/tranp/lang/di.py'

ref('Sym')   # symbols (types) as opaque identities
ref('Fac')   # factories / injectors
ref('Obj')   # created instances
union('Inj', ['str', 'Fac'])  # a lazy definition: module path or factory

# One record for the class family DI / LazyDI (a plain DI never touches the lazy table: frame).
record('DI', {
	'_DI__instances': 'dict[Sym, Obj]',
	'_DI__injectors': 'dict[Sym, Fac]',
	'_DI__invocations': 'dict[str, list[Sym]]',   # abstraction: the annotation dict is represented by its value list
	'_LazyDI__definitions': 'dict[str, Inj]',
}, source=(DIPY, 'LazyDI'))
alias('LazyDI', 'DI')
alias('Self', 'DI')

external('norm', [('s', 'Sym')], 'Sym', axioms=[({'s': 'Sym'}, 'norm(norm(s)) == norm(s)')],
	note="getattr(symbol, '__origin__', symbol): idempotent normalisation of generic aliases (assumed)")
external('symname', [('s', 'Sym')], 'str', axioms=[({'s': 'Sym'}, 'load_path(symname(s)) == s')],
	note='to_fullyname on symbols; load_module_path is its left inverse (assumed, hence injective)')
external('load_path', [('p', 'str')], 'Sym', note='load_module_path for symbol paths (assumed total)')
external('fac_of_path', [('p', 'str')], 'Fac', note='load_module_path for injector paths (assumed total)')
external('maker', [('o', 'Obj')], 'Fac', note='ghost: the factory that produced an instance')
external('call_factory', [('f', 'Fac'), ('args', 'list[Obj]'), ('rest', 'list[Obj]')], 'Obj',
	axioms=[({'f': 'Fac', 'a': 'list[Obj]', 'r': 'list[Obj]'}, 'maker(call_factory(f, a, r)) == f')],
	note='calling a factory returns an object made by that factory (ghost maker); side effects of user factories are not modelled')
external('fullyname', [('f', 'Fac')], 'str', note='to_fullyname on factories')
external('pluck', [('f', 'Fac')], 'list[Sym]', note='annotation list of the callable behind a factory (__to_annotated + __pluck_annotations)')
external('mismatch', [('f', 'Fac'), ('k', 'int'), ('rest', 'list[Obj]')], 'bool', note='signature check of __assert_invoke: remaining parameter types vs remaining arguments')
external('check_invoke', [('f', 'Fac'), ('k', 'int'), ('rest', 'list[Obj]')], 'bool', raises={'ValueError': 'mismatch(f, k, rest)'},
	note='__assert_invoke raises ValueError exactly when the signature check fails (its body is isinstance plumbing: assumed)')


@spec
def wf(d: DI) -> bool:
	"""One instance per binding generation: every instance belongs to a current binding and was made by that binding's factory."""
	return all(implies(s in d._DI__instances, s in d._DI__injectors and maker(d._DI__instances[s]) == d._DI__injectors[s]) for s in universe('Sym'))


@spec
def grows(a: DI, b: DI) -> bool:
	"""b's instances extend a's without changing any."""
	return all(implies(s in a._DI__instances, s in b._DI__instances and b._DI__instances[s] == a._DI__instances[s]) for s in universe('Sym'))




external('fresh_di', [], 'DI', axioms=[
	'all(s not in fresh_di()._DI__instances and s not in fresh_di()._DI__injectors for s in universe("Sym"))',
	'all(p not in fresh_di()._DI__invocations and p not in fresh_di()._LazyDI__definitions for p in universe("str"))',
], note='self.__class__(): a new container with empty tables (constructor of the same class)')
external('same_family', [('a', 'DI'), ('b', 'DI')], 'bool', note='isinstance(self, other.__class__): class relation of the two operands (uninterpreted)')


@spec
def fac(i: Inj) -> Fac:
	"""The factory a lazy definition denotes: itself if callable, else the object at that module path."""
	if isinstance(i, Fac):
		return i
	return fac_of_path(i)


@spec
def lz(d: DI) -> bool:
	"""LazyDI representation invariant: every materialised binding has a definition under its name."""
	return all(implies(s in d._DI__injectors, norm(s) == s and symname(s) in d._LazyDI__definitions) for s in universe('Sym'))


@spec
def eff_bound(d: DI, s: Sym) -> bool:
	"""LazyDI view: s is resolvable (materialised or defined by name)."""
	return s in d._DI__injectors or symname(s) in d._LazyDI__definitions


@spec
def eff(d: DI, s: Sym) -> Fac:
	"""LazyDI view: the factory that resolve(s) will use."""
	if s in d._DI__injectors:
		return d._DI__injectors[s]
	return fac(d._LazyDI__definitions[symname(s)])
