"""Spec vocabulary for C15: lark entries and their stored (dict) form as opaque identities with observers.

A lark entry is a Tree, a Token or None; a stored entry is a tree dict (has 'children'), a token dict (has 'value') or None.
Both are recursive object graphs of a third-party library / heterogeneous dicts: the contracts see them through observers
whose native readings are the real attributes.  Token positions that are unset (None) are read as 0: the code only tests their
truthiness before using them."""
from __future__ import annotations

from pyvc.api import external, record, ref, spec, implies

ENTRY = 'rogw/tranp/implements/syntax/lark/entry.py'

ref('LE')
ref('DE')
record('EntryOfLark', {'_EntryOfLark__entry': 'LE'}, source=(ENTRY, 'EntryOfLark'))

P4 = 'tuple[int, int, int, int]'
external('le_kind', [('e', 'LE')], 'int', axioms=[({'e': 'LE'}, '0 <= le_kind(e) and le_kind(e) <= 2')], note='0: None, 1: lark.Tree, 2: lark.Token (type(entry) is ...)')
external('le_data', [('e', 'LE')], 'str', note='Tree.data / Token.type')
external('le_value', [('e', 'LE')], 'str', note='Token.value')
external('le_children', [('e', 'LE')], 'list[LE]', note='Tree.children')
external('le_meta_ok', [('e', 'LE')], 'bool', note='Tree.meta is not None and not Tree.meta.empty')
external('le_pos', [('e', 'LE')], P4, note='(line, column, end_line, end_column) of Tree.meta / of the Token (None read as 0)')
external('le_hgt', [('e', 'LE')], 'int', axioms=[
	({'e': 'LE'}, 'le_hgt(e) >= 0'),
	({'e': 'LE', 'i': 'int'}, 'implies(0 <= i and i < len(le_children(e)), le_hgt(le_children(e)[i]) < le_hgt(e))'),
], note='height of a lark tree (finite trees: assumed)')
external('le_none', [], 'LE', axioms=['le_kind(le_none()) == 0'], note='None as a lark entry')
external('mk_ltree', [('name', 'str'), ('children', 'list[LE]'), ('pos', P4)], 'LE', axioms=[
	({'n': 'str', 'c': 'list[LE]', 'p': P4}, 'le_kind(mk_ltree(n, c, p)) == 1 and le_data(mk_ltree(n, c, p)) == n and le_children(mk_ltree(n, c, p)) == c and le_meta_ok(mk_ltree(n, c, p)) and le_pos(mk_ltree(n, c, p)) == p'),
], note='lark.Tree(name, children, meta) with meta.line/column/end_line/end_column set and meta.empty = False')
external('mk_ltoken', [('name', 'str'), ('value', 'str'), ('pos', P4)], 'LE', axioms=[
	({'n': 'str', 'v': 'str', 'p': P4}, 'le_kind(mk_ltoken(n, v, p)) == 2 and le_data(mk_ltoken(n, v, p)) == n and le_value(mk_ltoken(n, v, p)) == v and le_pos(mk_ltoken(n, v, p)) == p'),
], note='lark.Token(name, value) with line/column/end_line/end_column assigned')

# objects under construction in __loads: plain records whose fields are assigned one by one by the real statements
record('LMeta', {'line': 'int', 'column': 'int', 'end_line': 'int', 'end_column': 'int', 'empty': 'bool'})
record('LTokenB', {'type': 'str', 'value': 'str', 'line': 'int', 'column': 'int', 'end_line': 'int', 'end_column': 'int'})
external('new_meta', [], 'LMeta', note='lark.tree.Meta(): a fresh meta object (fields unset)')
external('new_token', [('name', 'str'), ('value', 'str')], 'LTokenB', axioms=[({'n': 'str', 'v': 'str'}, 'new_token(n, v).type == n and new_token(n, v).value == v')], note='lark.Token(name, value): positions unset')
external('tree_of', [('name', 'str'), ('children', 'list[LE]'), ('meta', 'LMeta')], 'LE', axioms=[
	({'n': 'str', 'c': 'list[LE]', 'm': 'LMeta'}, 'le_kind(tree_of(n, c, m)) == 1 and le_data(tree_of(n, c, m)) == n and le_children(tree_of(n, c, m)) == c and le_meta_ok(tree_of(n, c, m)) == (not m.empty) and le_pos(tree_of(n, c, m)) == (m.line, m.column, m.end_line, m.end_column)'),
], note='lark.Tree(name, children, meta)')
external('token_of', [('t', 'LTokenB')], 'LE', axioms=[
	({'t': 'LTokenB'}, 'le_kind(token_of(t)) == 2 and le_data(token_of(t)) == t.type and le_value(token_of(t)) == t.value and le_pos(token_of(t)) == (t.line, t.column, t.end_line, t.end_column)'),
], note='the finished lark.Token as an entry')
external('de_kind', [('d', 'DE')], 'int', axioms=[({'d': 'DE'}, '0 <= de_kind(d) and de_kind(d) <= 2')], note="0: None, 1: dict with 'children', 2: dict with 'value'")
external('de_name', [('d', 'DE')], 'str', note="entry['name']")
external('de_value', [('d', 'DE')], 'str', note="entry['value']")
external('de_children', [('d', 'DE')], 'list[DE]', note="entry['children']")
external('de_sm', [('d', 'DE')], P4, note="entry['source_map'] (a tuple before, a list after the JSON round trip: same items)")
external('de_hgt', [('d', 'DE')], 'int', axioms=[
	({'d': 'DE'}, 'de_hgt(d) >= 0'),
	({'d': 'DE', 'i': 'int'}, 'implies(0 <= i and i < len(de_children(d)), de_hgt(de_children(d)[i]) < de_hgt(d))'),
], note='height of a stored tree')
external('de_none', [], 'DE', axioms=['de_kind(de_none()) == 0'], note='None as a stored entry')
external('mk_dtree', [('name', 'str'), ('children', 'list[DE]'), ('sm', P4)], 'DE', axioms=[
	({'n': 'str', 'c': 'list[DE]', 'p': P4}, 'de_kind(mk_dtree(n, c, p)) == 1 and de_name(mk_dtree(n, c, p)) == n and de_children(mk_dtree(n, c, p)) == c and de_sm(mk_dtree(n, c, p)) == p'),
], note="{'name': ..., 'children': ..., 'source_map': ...}")
external('mk_dtoken', [('name', 'str'), ('value', 'str'), ('sm', P4)], 'DE', axioms=[
	({'n': 'str', 'v': 'str', 'p': P4}, 'de_kind(mk_dtoken(n, v, p)) == 2 and de_name(mk_dtoken(n, v, p)) == n and de_value(mk_dtoken(n, v, p)) == v and de_sm(mk_dtoken(n, v, p)) == p'),
], note="{'name': ..., 'value': ..., 'source_map': ...}")


@spec
def span_view(e: LE) -> tuple[int, int, int, int]:
	"""The span EntryOfLark(e).source_map reports: the recorded one if it is usable, (0, 0)-(0, 0) otherwise."""
	if le_kind(e) == 1 and le_meta_ok(e):
		return le_pos(e)
	if le_kind(e) == 2 and le_pos(e)[0] != 0 and le_pos(e)[1] != 0 and le_pos(e)[2] != 0 and le_pos(e)[3] != 0:
		return le_pos(e)
	return (0, 0, 0, 0)


@spec(decreases='le_hgt(e)')
def stored_as(e: LE, d: DE) -> bool:
	"""d is the stored form of e: same kind, name, value, the span the view reports, children stored pointwise."""
	if le_kind(e) == 0:
		return de_kind(d) == 0
	if le_kind(e) == 2:
		return de_kind(d) == 2 and de_name(d) == le_data(e) and de_value(d) == le_value(e) and de_sm(d) == span_view(e)
	return de_kind(d) == 1 and de_name(d) == le_data(e) and de_sm(d) == span_view(e) and len(de_children(d)) == len(le_children(e)) and all(stored_as(le_children(e)[i], de_children(d)[i]) for i in range(len(le_children(e))))


@spec(decreases='de_hgt(d)')
def restored_as(d: DE, e: LE) -> bool:
	"""e is what loading builds from d: same kind, name, value, the stored span as recorded positions (meta not empty), children restored pointwise."""
	if de_kind(d) == 0:
		return le_kind(e) == 0
	if de_kind(d) == 2:
		return le_kind(e) == 2 and le_data(e) == de_name(d) and le_value(e) == de_value(d) and le_pos(e) == de_sm(d)
	return le_kind(e) == 1 and le_data(e) == de_name(d) and le_meta_ok(e) and le_pos(e) == de_sm(d) and len(le_children(e)) == len(de_children(d)) and all(restored_as(de_children(d)[i], le_children(e)[i]) for i in range(len(de_children(d))))


@spec(decreases='le_hgt(a)')
def same_view(a: LE, b: LE) -> bool:
	"""The two entries look the same through EntryOfLark: name, is_empty, has_child, value, source_map, children pointwise."""
	if le_kind(a) == 0:
		return le_kind(b) == 0
	if le_kind(a) == 2:
		return le_kind(b) == 2 and le_data(b) == le_data(a) and le_value(b) == le_value(a) and span_view(b) == span_view(a)
	return le_kind(b) == 1 and le_data(b) == le_data(a) and span_view(b) == span_view(a) and len(le_children(b)) == len(le_children(a)) and all(same_view(le_children(a)[i], le_children(b)[i]) for i in range(len(le_children(a))))
