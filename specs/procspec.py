"""Spec vocabulary for C09 (Procedure stack discipline) over the abstract Node interface."""
from __future__ import annotations

from pyvc.api import spec, external, ref, record, union, init, last

PROC = 'rogw/tranp/semantics/procedure.py'

ref('Ret')
ref('Node')
ref('Emitter')
union('EventVal', ['Ret', 'list[Ret]'])
record('Procedure', {'_Procedure__stacks': 'list[list[Ret]]', '_Procedure__verbose': 'bool', '_Procedure__emitter': 'Emitter'}, source=(PROC, 'Procedure'))

external('keys', [('n', 'Node')], 'list[str]', axioms=[({'n': 'Node', 'a': 'int', 'b': 'int'}, 'implies(0 <= a and a < b and b < len(keys(n)), keys(n)[a] != keys(n)[b])')], note='Node.prop_keys(): the declared expandable properties, fixed per class (closed check: no duplicates)')
external('rev', [('xs', 'list[str]')], 'list[str]', axioms=[
	({'xs': 'list[str]'}, 'len(rev(xs)) == len(xs)'),
	({'xs': 'list[str]', 'i': 'int'}, 'implies(0 <= i and i < len(xs), rev(xs)[i] == xs[len(xs) - 1 - i])'),
], note='reversed(list): same length, mirrored order')
external('is_list', [('n', 'Node'), ('k', 'str')], 'bool', note='Procedure.__is_prop_list_by: the property getter is annotated list[...]')
external('prop_len', [('n', 'Node'), ('k', 'str')], 'int', axioms=[({'n': 'Node', 'k': 'str'}, 'prop_len(n, k) >= 0')], note='len(getattr(node, key)) for a list property')
external('emit_call', [('e', 'Emitter'), ('action', 'str'), ('n', 'Node'), ('ev', 'dict[str, EventVal]')], 'Ret', raises={'Exception': None},
	note='Middleware.emit(action, node=node, **event): runs the user handler; may raise anything; handlers touch the Procedure only through exec(), whose frame restores the stacks (assumed)')
external('usable', [('e', 'Emitter'), ('name', 'str')], 'bool', note='Middleware.usable')
external('classification', [('n', 'Node')], 'str', note='Node.classification')


@spec
def need1(n: Node, k: str) -> int:
	"""Number of child results a property consumes: all of them for a list property, one otherwise."""
	if is_list(n, k):
		return prop_len(n, k)
	return 1


@spec(decreases='j')
def need(n: Node, j: int) -> int:
	"""Number of child results the first j declared properties consume."""
	if j <= 0:
		return 0
	return need(n, j - 1) + need1(n, keys(n)[j - 1])


@spec
def distinct_keys(n: Node) -> bool:
	"""prop_keys() has no duplicate (closed fact of the node class table, checked by evaluation on every run)."""
	return all(all(implies(a != b, keys(n)[a] != keys(n)[b]) for b in range(len(keys(n)))) for a in range(len(keys(n))))


external('Node.classification', [('n', 'Node')], 'str', note='Node.classification')
external('Emitter.usable', [('e', 'Emitter'), ('name', 'str')], 'bool', note='Middleware.usable(handler name)')
external('exc_arg0_not_node', [('e', 'Emitter')], 'bool', note='`len(e.args) > 0 and not isinstance(e.args[0], Node)` on the caught application error (uninterpreted)')
external('flat', [('n', 'Node')], 'list[Node]', note='Node.procedural(): post-order flattening of the subtree (validated by the bounded monitor; a NodeNotFound / IllegalConvertion from a broken tree is an Errors.Error)',
	raises={'Errors.Error': None})
