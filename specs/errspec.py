"""Spec vocabulary for C07 (failures are reported as tranp errors)."""
from __future__ import annotations

from pyvc.api import spec, external, ref, record

LARKP = 'rogw/tranp/implements/syntax/lark/parser.py'
RENDER = 'rogw/tranp/view/error_render.py'

for _r in ['Datums', 'SrcLoader', 'Provider', 'Setting', 'Caches', 'Lark', 'LarkTree', 'EntryRef', 'StoredEntry', 'IdentityDict', 'Decorator', 'FileObj']:
	ref(_r)
record('SyntaxParserOfLark', {'_SyntaxParserOfLark__datums': 'Datums', '_SyntaxParserOfLark__sources': 'SrcLoader', '_SyntaxParserOfLark__source_provider': 'Provider',
	'_SyntaxParserOfLark__setting': 'Setting', '_SyntaxParserOfLark__caches': 'Caches'}, source=(LARKP, 'SyntaxParserOfLark'))

external('mp2fp', [('m', 'str')], 'str', note='module_path_to_filepath')
external('sl_exists', [('l', 'SrcLoader'), ('p', 'str')], 'bool', note='ISourceLoader.exists')
external('provide', [('p', 'Provider'), ('m', 'str')], 'str', raises={'Exception': None}, note='source provider: the text of the module (may raise anything, e.g. UnicodeDecodeError)')
external('lark_parse', [('p', 'Lark'), ('text', 'str')], 'LarkTree', raises={'Exception': None}, note='lark.Lark.parse: may raise any exception (UnexpectedInput, DedentError, ...)')
external('mk_entry', [('t', 'LarkTree')], 'EntryRef', note='EntryOfLark(tree)')
external('mk_stored', [('e', 'EntryRef')], 'StoredEntry', note='EntryStored(entry)')
external('entry_of', [('s', 'StoredEntry')], 'EntryRef', note='.entry of the value the cache decorator returns (the factory value or an equal stored one; cache-file errors belong to C05)')
external('identity_of', [('p', 'SyntaxParserOfLark'), ('path', 'str')], 'IdentityDict', note='the identity dict (grammar mtime, source mtime)')
external('cache_decorator', [('p', 'SyntaxParserOfLark'), ('base', 'str'), ('i', 'IdentityDict')], 'Decorator', note='CacheProvider.get(...)')


record('ErrorRender.Quotation', {'filepath': 'str', 'begin_line': 'int', 'cause_line': 'str', 'cause_range': 'tuple[int, int]'}, source=(RENDER, 'ErrorRender.Quotation'))
external('open_rb', [('p', 'str')], 'FileObj', note="open(path, mode='rb')")
external('FileObj.readlines', [('f', 'FileObj')], 'list[str]', note='all lines of the file (bytes modelled as text)')
external('file_lines', [('p', 'str')], 'list[str]', note='ghost: the lines of the file at that path')
