"""Spec vocabulary for C04: the session tables (modules, entry points, resolved node instances, memo tables)."""
from __future__ import annotations

from pyvc.api import external, record, ref, spec, implies

ENTRYPOINTS = 'rogw/tranp/syntax/ast/entrypoints.py'
MODULES = 'rogw/tranp/module/modules.py'
RESOLVER = 'rogw/tranp/syntax/node/resolver.py'
MEMO = 'rogw/tranp/cache/memo2.py'

ref('EntrypointNode')
ref('EpLoader')
ref('ModuleObj')
ref('ModLoader')
ref('NodeObj')
ref('Ctor')
ref('InvokerObj')
ref('ResolverObj')
ref('Factory')
ref('CacheVal')
record('ModulePath', {'path': 'str', 'language': 'str'}, source=('rogw/tranp/module/types.py', 'ModulePath'))
record('Entrypoints', {'_Entrypoints__loader': 'EpLoader', '_Entrypoints__entrypoints': 'dict[str, EntrypointNode]'}, source=(ENTRYPOINTS, 'Entrypoints'))
record('Modules', {'_Modules__library_paths': 'list[ModulePath]', '_Modules__module_paths': 'list[ModulePath]', '_Modules__loader': 'ModLoader', '_Modules__modules': 'dict[str, ModuleObj]'}, source=(MODULES, 'Modules'))
record('NodeResolver', {'_NodeResolver__invoker': 'InvokerObj', '_NodeResolver__resolver': 'ResolverObj', '_NodeResolver__insts': 'dict[str, NodeObj]'}, source=(RESOLVER, 'NodeResolver'))
record('Memo', {'_factory': 'Factory', '_result': 'CacheVal | None'}, source=(MEMO, 'Memo'))
record('Memoize', {'_memos': 'dict[str, Memo]'}, source=(MEMO, 'Memoize'))

external('ep_load', [('l', 'EpLoader'), ('path', 'str'), ('language', 'str')], 'EntrypointNode', raises={'Exception': None}, note='EntrypointLoader(ModulePath(path, language)): parses the module (may raise Errors.Syntax etc.)')
external('mod_load', [('l', 'ModLoader'), ('path', 'str'), ('language', 'str')], 'ModuleObj', raises={'Exception': None}, note='IModuleLoader.load(ModulePath): builds the Module around its entry point; touches the entry point table only')
external('mod_unload', [('l', 'ModLoader'), ('m', 'ModuleObj')], 'bool', note='IModuleLoader.unload(module.module_path): removes the entry point and the symbols of that module (SymbolDB.unload, Entrypoints.unload under their own contracts)')
external('mod_preprocess', [('l', 'ModLoader'), ('m', 'ModuleObj')], 'bool', raises={'Exception': None}, note='IModuleLoader.preprocess(module): runs the symbol preprocessors')
external('import_paths', [('m', 'ModuleObj')], 'list[str]', note='[n.import_path.tokens for n in module.entrypoint.imports]')
external('ctors_of', [('r', 'ResolverObj'), ('symbol', 'str')], 'list[Ctor]', raises={'Exception': None}, note='Resolver.resolve(symbol): candidate node classes in registration order')
external('match_feature', [('c', 'Ctor'), ('full_path', 'str'), ('i', 'InvokerObj')], 'bool', note='ctor.match_feature(dummy node at full_path): assumed to depend on the tree and the path only (validated by the C09 / C10 monitors)')
external('make_node', [('i', 'InvokerObj'), ('c', 'Ctor'), ('full_path', 'str')], 'NodeObj', note='invoker(ctor, full_path)')
external('call_fac', [('f', 'Factory')], 'CacheVal', raises={'Exception': None}, note='factory(): the memoised computation (never None: assumed)')
external('dependants', [('mods', 'dict[str, ModuleObj]'), ('path', 'str')], 'list[str]', note='Modules.__dependant_paths: the loaded modules whose entry point imports the given module (comprehension over dict items and import nodes)')
