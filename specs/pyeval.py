"""Spec functions for C17 (constant folding): CPython's evaluation of the operator set, written from the language
reference.  Floats are an uninterpreted sort in the SMT reading (dispatch contracts: the right primitive on the right
operands); natively these are ordinary Python functions, so replays compute real values."""
from __future__ import annotations

from pyvc.api import spec, external, ref, union, record, native, fzero

EVAL = 'rogw/tranp/implements/transpiler/evaluator.py'

union('Evaluator.Value', ['int', 'float', 'str'])
union('Value', ['int', 'float', 'str'])
ref('Node')
ref('Reflections')
ref('Procedure')
record('LiteralEvaluator', {'_reflections': 'Reflections', '_procedure': 'Procedure'}, source=(EVAL, 'LiteralEvaluator'))

external('Node.tokens', [('n', 'Node')], 'str', note='token text of a node (Node API, assumed total)')
external('Node.calls', [('n', 'Node')], 'Node', note='callee node of a FuncCall (Node API)')

ARITH = ['+', '-', '/', '*', '%']
BITWISE = ['|', '^', '&', '<<', '>>']


@spec
def is_num(v: Value) -> bool:
	return isinstance(v, int) or isinstance(v, float)


@spec
def as_float(v: Value) -> float:
	"""Numeric value as float (CPython's implicit int -> float promotion)."""
	if isinstance(v, int):
		return float(v)
	if isinstance(v, float):
		return v
	return 0.0


@spec
def num_binop_ok(l: Value, op: str, r: Value) -> bool:
	"""CPython evaluates `l op r` for numeric operands without raising."""
	if isinstance(l, int) and isinstance(r, int):
		if op in ['+', '-', '*']:
			return True
		if op in ['/', '%']:
			return r != 0
		if op in ['|', '^', '&']:
			return True
		if op in ['<<', '>>']:
			return r >= 0
		return False
	if op in ['+', '-', '*']:
		return True
	if op in ['/', '%']:
		return not fzero(as_float(r))
	return False


@spec
def float_op(a: float, op: str, b: float) -> float:
	if op == '+':
		return a + b
	if op == '-':
		return a - b
	if op == '*':
		return a * b
	if op == '/':
		return a / b
	return a % b


@spec
def int_op(a: int, op: str, b: int) -> int:
	if op == '+':
		return a + b
	if op == '-':
		return a - b
	if op == '*':
		return a * b
	if op == '%':
		return a % b
	if op == '|':
		return a | b
	if op == '^':
		return a ^ b
	if op == '&':
		return a & b
	if op == '<<':
		return a << b
	return a >> b


@spec
def num_binop(l: Value, op: str, r: Value) -> Value:
	"""Value (and type) CPython gives for numeric operands: int stays int except for `/`; any float operand gives float."""
	if isinstance(l, int) and isinstance(r, int):
		if op == '/':
			return l / r  # correctly rounded true division of the integers (not float(l) / float(r))
		return int_op(l, op, r)
	return float_op(as_float(l), op, as_float(r))


@spec(decreases='n')
def fold_ok(e: list[Value], n: int) -> bool:
	"""CPython evaluates the left-to-right chain e[0] op e[2] op ... (first n elements, numeric operands) without raising."""
	if n <= 1:
		return is_num(e[0])
	return fold_ok(e, n - 2) and isinstance(e[n - 2], str) and is_num(e[n - 1]) and num_binop_ok(fold(e, n - 2), str(e[n - 2]), e[n - 1])


@spec(decreases='n')
def fold(e: list[Value], n: int) -> Value:
	if n <= 1:
		return e[0]
	return num_binop(fold(e, n - 2), str(e[n - 2]), e[n - 1])


@spec
def all_str_operands(e: list[Value], n: int) -> bool:
	return all(isinstance(e[k], str) for k in range(0, n))


# ---- natively evaluated only (string denotations need CPython's literal rules) -----------------------------
@native
def denote(tok):
	"""Value of a string-literal token as CPython reads it."""
	import ast
	return ast.literal_eval(tok)


@native
def py_chain_value(elements):
	"""CPython's value of the chain  e0 op1 e1 ...  where string operands are literal tokens (None if CPython raises)."""
	import ast
	try:
		vals = [ast.literal_eval(v) if isinstance(v, str) and i % 2 == 0 else v for i, v in enumerate(elements)]
		src = repr(vals[0])
		for i in range(1, len(vals), 2):
			src = f'({src}) {vals[i]} ({vals[i + 1]!r})'
		return eval(src, {'__builtins__': {}})
	except Exception:
		return None


@native
def same_value(result, expected):
	"""Equal value and equal type; a string result is a literal token that must denote the expected string."""
	import ast, math
	if isinstance(expected, str):
		if not isinstance(result, str):
			return False
		try:
			return ast.literal_eval(result) == expected
		except Exception:
			return False
	if isinstance(expected, float) and isinstance(result, float) and math.isnan(expected) and math.isnan(result):
		return True
	return type(result) is type(expected) and result == expected


@native
def is_plain_literal(tok):
	"""A plain (unprefixed) single- or double-quoted one-line string literal token."""
	import ast
	if not isinstance(tok, str) or len(tok) < 2 or tok[0] not in '"\'' or tok[-1] != tok[0] or tok.startswith(tok[0] * 3):
		return False
	try:
		return isinstance(ast.literal_eval(tok), str)
	except Exception:
		return False


@native
def chain_in_domain(elements):
	"""Operands are ints, floats or plain string literal tokens; operators from the evaluator's set."""
	ops = ['+', '-', '/', '*', '%', '|', '^', '&', '<<', '>>']
	for i, v in enumerate(elements):
		if i % 2 == 1:
			if v not in ops:
				return False
		elif isinstance(v, str) and not is_plain_literal(v):
			return False
	return True


@native
def py_int_literal(tok):
	"""CPython's value of an integer literal token (decimal or 0x hexadecimal), None if it is not one."""
	import ast
	try:
		v = ast.literal_eval(tok)
		return v if type(v) is int else None
	except Exception:
		return None


@native
def cast_in_domain(arg):
	return not isinstance(arg, str) or is_plain_literal(arg)


@native
def py_cast(name, arg):
	"""CPython's int()/float()/str() on the denoted value (None if CPython raises)."""
	import ast
	v = ast.literal_eval(arg) if isinstance(arg, str) else arg
	try:
		return {'int': int, 'float': float, 'str': str}[name](v)
	except Exception:
		return None


@native
def cat_seam_known(left, right):
	"""Witness predicate of known finding F-C17-a: concatenating the raw literal texts is not the concatenation of the values because
	(1) the left literal ends in an octal escape of fewer than three digits and the right one starts with an octal digit, or
	(2) the right literal is quoted with the other quote character and contains the left literal's quote unescaped."""
	import re
	if not (is_plain_literal(left) and is_plain_literal(right)):
		return False
	lb, rb = left[1:-1], right[1:-1]
	m = re.search(r'(?<!\\)(?:\\\\)*\\([0-7]{1,2})$', lb)
	if m and rb[:1] in list('01234567'):
		return True
	if right[0] != left[0] and re.search(r'(?<!\\)(?:\\\\)*' + re.escape(left[0]), rb):
		return True
	return False


@native
def chain_seam_known(elements):
	"""F-C17-a lifted to operand chains: some adjacent pair of string operands (after folding to the left) hits the seam."""
	strs = [v for i, v in enumerate(elements) if i % 2 == 0]
	if not all(isinstance(v, str) and is_plain_literal(v) for v in strs):
		return False
	acc = strs[0]
	for nxt in strs[1:]:
		if cat_seam_known(acc, nxt):
			return True
		acc = acc[0] + acc[1:-1] + nxt[1:-1] + acc[0]
		if not is_plain_literal(acc):
			return True
	return False
