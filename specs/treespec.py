"""Spec vocabulary for C10 (tree addressing, node queries)."""
from __future__ import annotations

from pyvc.api import spec, external, ref, record

QUERY = 'rogw/tranp/syntax/node/query.py'
PATH = 'rogw/tranp/syntax/ast/path.py'
ECACHE = 'rogw/tranp/syntax/ast/cache.py'

for _r in ['MemoRef', 'ResolverRef', 'EntriesRef', 'NodeRef', 'EntryT']:
	ref(_r)
record('Nodes', {'_Nodes__memo': 'MemoRef', '_Nodes__resolver': 'ResolverRef', '_Nodes__entries': 'EntriesRef'}, source=(QUERY, 'Nodes'))
record('EntryCache', {'_EntryCache__entries': 'dict[str, EntryT]', '_EntryCache__children': 'dict[str, dict[str, bool]]', '_EntryCache__indexs': 'dict[str, int]'}, source=(ECACHE, 'EntryCache'))
record('EntryPath', {'origin': 'str'}, source=(PATH, 'EntryPath'))

external('rev_tags', [('via', 'str')], 'list[str]', note='list(reversed(EntryPath(via).de_identify().elements)): the tags of the path, innermost first (regex de-indexing assumed)')
external('path_elems', [('via', 'str')], 'list[str]', note='EntryPath(via).elements')
external('join_elems', [('xs', 'list[str]')], 'str', note='EntryPath.join(*elems).origin')
external('nodes_by', [('n', 'Nodes'), ('p', 'str')], 'NodeRef', raises={'Errors.NodeNotFound': None}, note='Nodes.by(path): NodeNotFound for an unknown path')
