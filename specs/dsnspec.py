"""Spec vocabulary for C08 / C10: dotted names as sequences of elements."""
from __future__ import annotations

from pyvc.api import spec, external, ref, record

DSNPY = 'rogw/tranp/dsn/dsn.py'


@spec
def elems(s: str) -> list[str]:
	"""The element structure of a dotted name: the non-empty parts between dots (the abstraction every name-handling function must respect)."""
	return [e for e in s.split('.') if e]


@spec
def wf_name(s: str) -> bool:
	"""A well-formed dotted name: no empty element (no leading, trailing or doubled dot); the empty name is allowed."""
	return not s.startswith('.') and not s.endswith('.') and '..' not in s


@spec(decreases='n')
def nonempty(xs: list[str], n: int) -> list[str]:
	if n <= 0:
		return []
	if xs[n - 1]:
		return nonempty(xs, n - 1) + [xs[n - 1]]
	return nonempty(xs, n - 1)
