"""Spec vocabulary for C01: the two operator handlers that protect an operand with parentheses."""
from __future__ import annotations

from pyvc.api import external, record, ref, spec, implies

PY2CPP = 'rogw/tranp/implements/cpp/transpiler/py2cpp.py'

ref('OpNode')
ref('Py2CppObj')
external('operand_of', [('n', 'OpNode')], 'OpNode', note='UnaryOperator.value: the operand node')
external('elements_of', [('n', 'OpNode')], 'list[OpNode]', note='BinaryOperator.elements: operands and operators, alternating')
external('is_binop', [('n', 'OpNode')], 'bool', note='isinstance(node, defs.BinaryOperator): or/and/comparison/bitwise/shift/sum/term chains')
external('is_bitwise', [('n', 'OpNode')], 'bool', axioms=[({'n': 'OpNode'}, 'implies(is_bitwise(n), is_binop(n))')], note='isinstance(node, (defs.OrBitwise, defs.XorBitwise, defs.AndBitwise))')
external('render_unary', [('t', 'Py2CppObj'), ('n', 'OpNode'), ('operator', 'str'), ('value', 'str')], 'str', note="Py2Cpp.render(node, 'operation/unary_operator', operator, value): the template writes operator immediately followed by value")
external('binary_chain', [('t', 'Py2CppObj'), ('n', 'OpNode'), ('elements', 'list[str]')], 'str', raises={'Exception': None}, note='Py2Cpp.proc_binary_operation(node, elements): left-to-right rendering of the operator chain from the operand texts')
