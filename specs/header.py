"""Spec vocabulary for C06 (meta header, run selection, output paths)."""
from __future__ import annotations

from pyvc.api import spec, external, ref, record, const

HDR = 'rogw/tranp/data/meta/header.py'
RUN = 'rogw/tranp/bin/transpile.py'

record('ModuleMeta', {'hash': 'str', 'path': 'str'})
record('TranspilerMeta', {'version': 'str', 'module': 'str'})
record('MetaHeader', {'app_version': 'str', 'module_meta': 'ModuleMeta', 'transpiler_meta': 'TranspilerMeta'}, source=(HDR, 'MetaHeader'))
const('TAG', '@tranp.meta')

# json: compact dumps of the three header fields and the field-wise inverse of loads (trusted; bounded-checked by the twin)
external('json_of', [('v', 'str'), ('m', 'ModuleMeta'), ('t', 'TranspilerMeta')], 'str', axioms=[
	({'v': 'str', 'm': 'ModuleMeta', 't': 'TranspilerMeta'}, 'json_version(json_of(v, m, t)) == v and json_module(json_of(v, m, t)) == m and json_transpiler(json_of(v, m, t)) == t'),
	({'v': 'str', 'm': 'ModuleMeta', 't': 'TranspilerMeta'}, "'\\n' not in json_of(v, m, t) and json_of(v, m, t).endswith('}') and len(json_of(v, m, t)) >= 2"),
], note="json.dumps({'version','module','transpiler'}, separators=(',', ':')): loads inverts it field by field; the text has no newline and ends with '}'")
external('json_version', [('s', 'str')], 'str', axioms=[({'s': 'str'}, "json_version(' ' + s) == json_version(s)")], note="json.loads(s)['version']; leading blanks are ignored by json.loads")
external('json_module', [('s', 'str')], 'ModuleMeta', axioms=[({'s': 'str'}, "json_module(' ' + s) == json_module(s)")], note="json.loads(s)['module']")
external('json_transpiler', [('s', 'str')], 'TranspilerMeta', axioms=[({'s': 'str'}, "json_transpiler(' ' + s) == json_transpiler(s)")], note="json.loads(s)['transpiler']")
external('md5', [('s', 'str')], 'str', axioms=[({'a': 'str', 'b': 'str'}, 'implies(md5(a) == md5(b), a == b)')], note='hashlib.md5(...).hexdigest() treated as injective on the inputs that occur')


@spec
def header_json(h: MetaHeader) -> str:
	return json_of(h.app_version, h.module_meta, h.transpiler_meta)


ref('ModulePath')
ref('Sources')
ref('Modules')
ref('Config')
ref('MetaFactory')
ref('Transpiler')
record('Runner', {'sources': 'Sources', 'module_paths': 'list[ModulePath]', 'modules': 'Modules', 'config': 'Config', 'module_meta_factory': 'MetaFactory', 'transpiler': 'Transpiler'}, source=(RUN, 'Runner'))

external('recorded_header', [('r', 'Runner'), ('m', 'ModulePath')], 'MetaHeader | None',
	note='try_load_meta_header: the header parsed from the existing output file of the module, None if there is no file / no header (file I/O assumed; the parsing itself is MetaHeader.try_from_content, proved above)')
external('current_module_meta', [('r', 'Runner'), ('m', 'ModulePath')], 'ModuleMeta', note='module_meta_factory(module_path.path): md5 of the current source and its module path')
external('current_transpiler_meta', [('r', 'Runner')], 'TranspilerMeta', note='transpiler.meta')
external('pjoin', [('a', 'str'), ('b', 'str')], 'str', axioms=[({'a': 'str', 'b': 'str', 'c': 'str'}, 'implies(pjoin(a, b) == pjoin(a, c), b == c)')],
	note='os.path.join(dir, relative path): injective in the relative path for a fixed directory (relative paths assumed)')
external('glob_match', [('cond', 'str'), ('f', 'str')], 'bool', note="re.fullmatch(cond.replace('*', '.+'), f) is not None (regular expression: assumed)")


@spec(decreases='len(dirs) - k')
def out_path(dirs: list[str], f: str, k: int) -> str:
	"""Output path rule: the first matching entry wins; '<in>/*:<out>' keeps the whole relative path, '<in>/:<out>' strips the prefix; the last entry is the fallback directory."""
	if k >= len(dirs) - 1:
		return pjoin(dirs[len(dirs) - 1], f)
	if dirs[k].split(':')[0].endswith('*') and glob_match(dirs[k].split(':')[0], f):
		return pjoin(dirs[k].split(':')[1], f)
	if f.startswith(dirs[k].split(':')[0]):
		return pjoin(dirs[k].split(':')[1], f[len(dirs[k].split(':')[0]):])
	return out_path(dirs, f, k + 1)


def _versions_app() -> str:
	"""Versions.app read from the current working tree (closed constant)."""
	import ast
	from pyvc import source
	cls = source.load('rogw/tranp/data/version.py').classes['Versions']
	for st in cls.body:
		if isinstance(st, (ast.Assign, ast.AnnAssign)):
			t = st.targets[0] if isinstance(st, ast.Assign) else st.target
			if isinstance(t, ast.Name) and t.id == 'app' and st.value is not None:
				return ast.literal_eval(st.value)
	raise RuntimeError('Versions.app not found')


const('VERSIONS_APP', _versions_app())

external('abspath_of', [('p', 'str')], 'str', axioms=[({'p': 'str'}, 'is_abs(abspath_of(p))')], note='os.path.abspath(p): an absolute path (independent of any loader search path)')
external('is_abs', [('p', 'str')], 'bool', note='os.path.isabs(p)')
external('output_language', [('c', 'Config')], 'str', note='Config.output_language')
external('mp_path', [('m', 'ModulePath')], 'str', note='ModulePath.path')
external('mp_to_file', [('path', 'str'), ('ext', 'str')], 'str', note='module_path_to_filepath(path, extension)')
