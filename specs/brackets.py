"""Spec functions for C18 (fragment splitting).  Pure Python: translated to SMT by pyvc and executed natively on replay."""
from pyvc.api import spec, init, last

ALL_PAIRS = '[](){}<>""\'\''


@spec
def stack_step(st: list[str], toks: str, ch: str) -> list[str]:
	"""One step of the scanner's bracket stack (ghost: mirrors BlockParser._skip_other_block; quotes are not special here)."""
	if ch not in toks:
		return st
	k = toks.find(ch)
	if len(st) > 0 and last(st) == ch:
		return init(st)
	if k % 2 == 0:
		return st + [toks[k + 1]]
	return st


@spec(decreases='hi - lo')
def code_stack(text: str, toks: str, lo: int, hi: int) -> list[str]:
	"""Stack of expected closers after scanning text[lo:hi] the way the code does."""
	if hi <= lo:
		return []
	return stack_step(code_stack(text, toks, lo, hi - 1), toks, text[hi - 1])
