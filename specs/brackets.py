"""Spec functions for C18 (fragment splitting).  Pure Python: translated to SMT by pyvc and executed natively on replay."""
from pyvc.api import spec, init, last, const

ALL_PAIRS = const('ALL_PAIRS', '[](){}<>""\'\'')


@spec(opaque=True)
def stack_step(st: list[str], toks: str, ch: str) -> list[str]:
	"""One step of the scanner's bracket stack (ghost: mirrors BlockParser._skip_other_block; quotes are not special here)."""
	if ch not in toks:
		return st
	k = toks.find(ch)
	if len(st) > 0 and last(st) == ch:
		return init(st)
	if k % 2 == 0:
		return st + [toks[k + 1]]
	return st


@spec(decreases='hi - lo')
def code_stack(text: str, toks: str, lo: int, hi: int) -> list[str]:
	"""Stack of expected closers after scanning text[lo:hi] the way the code does."""
	if hi <= lo:
		return []
	return stack_step(code_stack(text, toks, lo, hi - 1), toks, text[hi - 1])


@spec(decreases='n')
def depth(text: str, b0: str, b1: str, n: int) -> int:
	"""Nesting depth w.r.t. one bracket pair after the first n characters; a closer at depth 0 is ignored (clamped)."""
	if n <= 0:
		return 0
	if text[n - 1] == b0:
		return depth(text, b0, b1, n - 1) + 1
	if text[n - 1] == b1 and depth(text, b0, b1, n - 1) >= 1:
		return depth(text, b0, b1, n - 1) - 1
	return depth(text, b0, b1, n - 1)


@spec(decreases='n')
def open_begin(text: str, b0: str, b1: str, n: int) -> int:
	"""Position just after the most recent opener met at depth 0 within the first n characters (0 if none)."""
	if n <= 0:
		return 0
	if text[n - 1] == b0 and depth(text, b0, b1, n - 1) == 0:
		return n
	return open_begin(text, b0, b1, n - 1)


@spec(decreases='n')
def lg_end(text: str, b0: str, b1: str, n: int) -> int:
	"""Position of the closer of the last complete top-level group within the first n characters (-1 if none)."""
	if n <= 0:
		return -1
	if text[n - 1] == b1 and depth(text, b0, b1, n - 1) == 1:
		return n - 1
	return lg_end(text, b0, b1, n - 1)


@spec(decreases='n')
def lg_begin(text: str, b0: str, b1: str, n: int) -> int:
	"""Position just after the opener of the last complete top-level group within the first n characters (-1 if none)."""
	if n <= 0:
		return -1
	if text[n - 1] == b1 and depth(text, b0, b1, n - 1) == 1:
		return open_begin(text, b0, b1, n - 1)
	return lg_begin(text, b0, b1, n - 1)


@spec
def is_cut(text: str, d: str, toks: str, i: int) -> bool:
	"""Position i is a delimiter at code-level depth 0 that is not the last thing in the text (H1: code-derived notion of a cut)."""
	return 0 <= i and i + len(d) < len(text) and text[i:i + len(d)] == d and len(code_stack(text, toks, 0, i)) == 0


@spec(decreases='n')
def seg_begin(text: str, d: str, toks: str, n: int) -> int:
	"""Start of the current (unfinished) segment after the cuts at positions < n."""
	if n <= 0:
		return 0
	if is_cut(text, d, toks, n - 1):
		return n - 1 + len(d)
	return seg_begin(text, d, toks, n - 1)


@spec(decreases='n')
def blocks_upto(text: str, d: str, toks: str, n: int) -> list[str]:
	"""Stripped segments closed by the cuts at positions < n."""
	if n <= 0:
		return []
	if is_cut(text, d, toks, n - 1):
		return blocks_upto(text, d, toks, n - 1) + [text[seg_begin(text, d, toks, n - 1):n - 1].strip(' ')]
	return blocks_upto(text, d, toks, n - 1)


@spec(decreases='n')
def raw_concat(text: str, d: str, toks: str, n: int) -> str:
	"""Unstripped closed segments, each followed by the delimiter, concatenated."""
	if n <= 0:
		return ''
	if is_cut(text, d, toks, n - 1):
		return raw_concat(text, d, toks, n - 1) + text[seg_begin(text, d, toks, n - 1):n - 1] + d
	return raw_concat(text, d, toks, n - 1)


@spec
def bs_spec(text: str, d: str) -> list[str]:
	"""What break_separator must return: the segments between the cuts, stripped of blanks; an empty last segment is omitted."""
	if seg_begin(text, d, ALL_PAIRS, len(text)) < len(text):
		return blocks_upto(text, d, ALL_PAIRS, len(text)) + [text[seg_begin(text, d, ALL_PAIRS, len(text)):].strip(' ')]
	return blocks_upto(text, d, ALL_PAIRS, len(text))


@spec(opaque=True)
def key_of(piece: str, i: int) -> str:
	"""Decorator argument key: the label before the first '=' or, without one, the position."""
	if '=' in piece:
		return piece[:piece.find('=')]
	return str(i)


@spec(opaque=True)
def val_of(piece: str) -> str:
	if '=' in piece:
		return piece[piece.find('=') + 1:]
	return piece


# ---- natively evaluated helpers (bounded twin only) -----------------------------------------------------
from pyvc.api import native  # noqa: E402

_PAIR = {'(': ')', '[': ']', '{': '}', '<': '>'}


@native
def closer_stack(text: str, lo: int, hi: int):
	"""The stack machine *as the property means it*: inside a quote nothing counts until the same quote.
	Returns the list of expected closers, or None if a closer does not match."""
	st: list[str] = []
	for ch in text[lo:hi]:
		if st and st[-1] in '"\'':
			if ch == st[-1]:
				st.pop()
			continue
		if ch in '"\'':
			st.append(ch)
		elif ch in _PAIR:
			st.append(_PAIR[ch])
		elif ch in _PAIR.values():
			if not st or st[-1] != ch:
				return None
			st.pop()
	return st


@native
def balanced(text: str) -> bool:
	return closer_stack(text, 0, len(text)) == []


@native
def top_level(text: str, i: int) -> bool:
	return closer_stack(text, 0, i) == []


@native
def cuts_ok(text: str, d: str, pieces: list) -> bool:
	"""T2 for a balanced text (soundness of the cuts, as the statement words it): every position where the scanner cuts is a
	delimiter outside all brackets and quotes in the property's own, quote-aware sense, and no piece is unbalanced.
	(The statement does not demand that *every* top-level delimiter is cut: a quote containing an opening bracket makes the
	scanner skip further than necessary, which loses cuts but never makes a wrong one.)"""
	if not balanced(text):
		return True
	cut_positions = [i for i in range(len(text)) if is_cut(text, d, ALL_PAIRS, i)]
	return all(top_level(text, c) for c in cut_positions) and all(balanced(p) for p in pieces)


@native
def param_wf(ty: str, name: str, default: str) -> bool:
	"""Domain of the Param.parse law: identifier name; type/default balanced, blank-trimmed, type without top-level '=' or double blanks,
	default without top-level '='."""
	import re
	if not re.fullmatch(r'[A-Za-z_]\w*', name) or not ty or ty != ty.strip(' ') or default != default.strip(' '):
		return False
	if not balanced(ty) or not balanced(default):
		return False
	for i, ch in enumerate(ty):
		if top_level(ty, i) and (ch == '=' or ty[i:i + 2] == '  '):
			return False
	return not any(default[i] == '=' and top_level(default, i) for i in range(len(default)))
