"""Spec functions for C18 (fragment splitting).  Pure Python: translated to SMT by pyvc and executed natively on replay."""
from pyvc.api import spec, init, last

ALL_PAIRS = '[](){}<>""\'\''


@spec(opaque=True)
def stack_step(st: list[str], toks: str, ch: str) -> list[str]:
	"""One step of the scanner's bracket stack (ghost: mirrors BlockParser._skip_other_block; quotes are not special here)."""
	if ch not in toks:
		return st
	k = toks.find(ch)
	if len(st) > 0 and last(st) == ch:
		return init(st)
	if k % 2 == 0:
		return st + [toks[k + 1]]
	return st


@spec(decreases='hi - lo')
def code_stack(text: str, toks: str, lo: int, hi: int) -> list[str]:
	"""Stack of expected closers after scanning text[lo:hi] the way the code does."""
	if hi <= lo:
		return []
	return stack_step(code_stack(text, toks, lo, hi - 1), toks, text[hi - 1])


@spec(decreases='n')
def depth(text: str, b0: str, b1: str, n: int) -> int:
	"""Nesting depth w.r.t. one bracket pair after the first n characters; a closer at depth 0 is ignored (clamped)."""
	if n <= 0:
		return 0
	if text[n - 1] == b0:
		return depth(text, b0, b1, n - 1) + 1
	if text[n - 1] == b1 and depth(text, b0, b1, n - 1) >= 1:
		return depth(text, b0, b1, n - 1) - 1
	return depth(text, b0, b1, n - 1)


@spec(decreases='n')
def open_begin(text: str, b0: str, b1: str, n: int) -> int:
	"""Position just after the most recent opener met at depth 0 within the first n characters (0 if none)."""
	if n <= 0:
		return 0
	if text[n - 1] == b0 and depth(text, b0, b1, n - 1) == 0:
		return n
	return open_begin(text, b0, b1, n - 1)


@spec(decreases='n')
def lg_end(text: str, b0: str, b1: str, n: int) -> int:
	"""Position of the closer of the last complete top-level group within the first n characters (-1 if none)."""
	if n <= 0:
		return -1
	if text[n - 1] == b1 and depth(text, b0, b1, n - 1) == 1:
		return n - 1
	return lg_end(text, b0, b1, n - 1)


@spec(decreases='n')
def lg_begin(text: str, b0: str, b1: str, n: int) -> int:
	"""Position just after the opener of the last complete top-level group within the first n characters (-1 if none)."""
	if n <= 0:
		return -1
	if text[n - 1] == b1 and depth(text, b0, b1, n - 1) == 1:
		return open_begin(text, b0, b1, n - 1)
	return lg_begin(text, b0, b1, n - 1)


@spec
def is_cut(text: str, d: str, toks: str, i: int) -> bool:
	"""Position i is a delimiter at code-level depth 0 that is not the last thing in the text (H1: code-derived notion of a cut)."""
	return 0 <= i and i + len(d) < len(text) and text[i:i + len(d)] == d and len(code_stack(text, toks, 0, i)) == 0


@spec(decreases='n')
def seg_begin(text: str, d: str, toks: str, n: int) -> int:
	"""Start of the current (unfinished) segment after the cuts at positions < n."""
	if n <= 0:
		return 0
	if is_cut(text, d, toks, n - 1):
		return n - 1 + len(d)
	return seg_begin(text, d, toks, n - 1)


@spec(decreases='n')
def blocks_upto(text: str, d: str, toks: str, n: int) -> list[str]:
	"""Stripped segments closed by the cuts at positions < n."""
	if n <= 0:
		return []
	if is_cut(text, d, toks, n - 1):
		return blocks_upto(text, d, toks, n - 1) + [text[seg_begin(text, d, toks, n - 1):n - 1].strip(' ')]
	return blocks_upto(text, d, toks, n - 1)


@spec(decreases='n')
def raw_concat(text: str, d: str, toks: str, n: int) -> str:
	"""Unstripped closed segments, each followed by the delimiter, concatenated."""
	if n <= 0:
		return ''
	if is_cut(text, d, toks, n - 1):
		return raw_concat(text, d, toks, n - 1) + text[seg_begin(text, d, toks, n - 1):n - 1] + d
	return raw_concat(text, d, toks, n - 1)
