"""Spec vocabulary for C13 (tokenizer).  The character tables are read from the real TokenDefinition constructor on every run."""
from __future__ import annotations

import os
import sys

from pyvc.api import spec, external, ref, record, const

TOKENIZER = 'rogw/tranp/implements/syntax/tranp/tokenizer.py'
TOKEN = 'rogw/tranp/implements/syntax/tranp/token.py'


def _definition():
	repo = os.environ.get('PYVC_REPO', '/repo')
	if repo not in sys.path:
		sys.path.insert(0, repo)
	from rogw.tranp.implements.syntax.tranp.token import TokenDefinition, TokenTypes
	d = TokenDefinition()
	return d, TokenTypes


_d, _TT = _definition()
const('WS', _d.white_space)
const('IDENT', _d.identifier)
const('NUMBER', _d.number)
const('SYMBOL', _d.symbol)
for _n in ['WhiteSpace', 'LineBreak', 'EOF', 'NewLine', 'Indent', 'Dedent', 'Comment', 'String', 'Regexp', 'Digit', 'Decimal', 'Name', 'Minus', 'ParenL', 'ParenR', 'BraceL', 'BraceR', 'BracketL', 'BracketR']:
	const(f'T_{_n}', getattr(_TT, _n).value)
QUOTE_PAIRS = [(p['open'], p['close']) for p in _d.quote]
COMMENT_PAIRS = [(p['open'], p['close']) for p in _d.comment]

for _r in ['TokenDefinition', 'AnalyzerTable', 'ParserTable', 'HandlerTable', 'LexerRef']:
	ref(_r)
record('Token', {'_type': 'int', '_string': 'str', 'source_map': 'Token.SourceMap'}, source=(TOKEN, 'Token'))
record('Lexer', {'_definition': 'TokenDefinition', '_analyzers': 'AnalyzerTable', '_parsers': 'ParserTable'}, source=(TOKENIZER, 'Lexer'))
record('Tokenizer.Context', {'nest': 'int', 'enclosure': 'int', '_indent_spaces': 'int'}, source=(TOKENIZER, 'Tokenizer.Context'))
record('Tokenizer', {'_definition': 'TokenDefinition', '_lexer': 'LexerRef', '_handlers': 'HandlerTable'}, source=(TOKENIZER, 'Tokenizer'))


@spec(decreases='i - lo')
def bs_run(source: str, lo: int, i: int) -> int:
	"""Number of consecutive backslashes immediately before position i (not looking below lo)."""
	if i <= lo:
		return 0
	if source[i - 1] != '\\':
		return 0
	return 1 + bs_run(source, lo, i - 1)


@spec
def closes(source: str, close: str, lo: int, i: int) -> bool:
	"""Python's rule: a quote character closes the literal unless it is preceded by an odd number of backslashes."""
	return 0 <= i and i < len(source) and source[i] == close and bs_run(source, lo, i) % 2 == 0


@spec
def indent_of(tok: Token) -> int:
	"""Width of the last line of a line-break token (the indentation of the next statement)."""
	return len(tok._string.split('\n')[len(tok._string.split('\n')) - 1])


@spec
def nest_of(ctx: Tokenizer.Context, spaces: int) -> int:
	"""Block depth of an indentation width: 0 for no indentation, else width / unit where the unit is the first non-zero width seen."""
	if spaces == 0:
		return 0
	if ctx._indent_spaces == -1:
		return int(spaces / spaces)
	return int(spaces / ctx._indent_spaces)
