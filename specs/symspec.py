"""Spec vocabulary for C14 (symbol table export / import) over an abstract reflection interface.

Reflections form trees through `.attrs` (type arguments).  They are third-party-shaped mutable objects, so the contracts
see them as opaque identities (`Refl`) with three observers and a reachability relation; the observers' native readings
are the real properties.  All of these are assumed externals (listed under assumptions)."""
from __future__ import annotations

from pyvc.api import external, ref, record, spec, implies, init, last

DB = 'rogw/tranp/semantics/reflection/db.py'

ref('Refl')
record('SymbolDB', {'_SymbolDB__items': 'dict[str, Refl]', '_SymbolDB__paths': 'dict[str, tuple[str, str]]', '_SymbolDB__completed': 'list[str]'}, source=(DB, 'SymbolDB'))

external('attrs_of', [('r', 'Refl')], 'list[Refl]', note='IReflection.attrs: the type-argument symbols (a finite tree: assumed)')
external('name_of', [('r', 'Refl')], 'str', note='IReflection.types.fullyname: the table key of the symbol\'s type')
external('mod_of', [('r', 'Refl')], 'str', note='IReflection.types.module_path')
external('child_ix', [('a', 'Refl'), ('r', 'Refl')], 'int', note='Skolem function of the reachability axiom: the child through which a proper descendant is reached')
external('hgt', [('r', 'Refl')], 'int', axioms=[
	({'r': 'Refl'}, 'hgt(r) >= 0'),
	({'r': 'Refl', 'i': 'int'}, 'implies(0 <= i and i < len(attrs_of(r)), hgt(attrs_of(r)[i]) < hgt(r))'),
], note='height of a reflection in its attrs tree (exists because the tree is finite and acyclic: assumed)')
external('desc', [('a', 'Refl'), ('r', 'Refl')], 'bool', axioms=[
	({'r': 'Refl'}, 'desc(r, r)'),
	({'a': 'Refl', 'r': 'Refl', 'i': 'int'}, 'implies(0 <= i and i < len(attrs_of(r)) and desc(a, attrs_of(r)[i]), desc(a, r))'),
	({'a': 'Refl', 'r': 'Refl'}, 'implies(desc(a, r), hgt(a) <= hgt(r))'),
	({'a': 'Refl', 'r': 'Refl'}, 'implies(desc(a, r) and a != r, 0 <= child_ix(a, r) and child_ix(a, r) < len(attrs_of(r)) and desc(a, attrs_of(r)[child_ix(a, r)]))'),
], note='a is r or reachable from r through attrs (reflexive-transitive closure; the three axioms are its unfolding)')
external('krank', [('k', 'str')], 'int', note='rank of a key in the type-reference graph of the table (exists iff that graph is acyclic; the contracts require it)')


@spec
def ready(items: dict[str, Refl], m: str, k: str, s: list[str]) -> bool:
	"""Every key the row of k refers to (its type and type arguments at any depth, within module m) is in s."""
	return implies(k in items, all(implies(desc(a, items[k]) and mod_of(a) == m and name_of(a) != k, name_of(a) in s) for a in universe("Refl")))


@spec(decreases='len(o)')
def ordered(items: dict[str, Refl], m: str, o: list[str]) -> bool:
	"""The export order is dependency order: each key is listed after all keys its row refers to."""
	if len(o) == 0:
		return True
	return ordered(items, m, init(o)) and ready(items, m, last(o), init(o))


external('path_items', [('d', 'dict[str, tuple[str, str]]')], 'list[tuple[str, tuple[str, str]]]', axioms=[
	({'d': 'dict[str, tuple[str, str]]', 'j': 'int'}, 'implies(0 <= j and j < len(path_items(d)), path_items(d)[j][0] in d and d[path_items(d)[j][0]] == path_items(d)[j][1])'),
	({'d': 'dict[str, tuple[str, str]]', 'k': 'str'}, 'implies(k in d, 0 <= pix(d, k) and pix(d, k) < len(path_items(d)) and path_items(d)[pix(d, k)][0] == k)'),
], note='dict.items() of the path table as a list: every listed pair is an entry of the dict and every entry is listed (iteration order itself is not modelled)')
external('pix', [('d', 'dict[str, tuple[str, str]]'), ('k', 'str')], 'int', note='Skolem function: the position at which dict.items() yields key k')


ref('Row')
ref('Serializer')
external('dsn_parsed', [('key', 'str')], 'tuple[str, str]', note='ModuleDSN.parsed(key): (module path, local path) of a table key (see C08 for DSN)')
external('deser', [('s', 'Serializer'), ('items', 'dict[str, Refl]'), ('row', 'Row')], 'Refl', raises={'Errors.Error': None, 'KeyError': None},
	note='IReflectionSerializer.deserialize(db, row): reads the table (through __getitem__) and the entry points; its result is the rebuilt symbol (bounded twin); a missing key is Errors.SymbolNotDefined')
external('row_items', [('d', 'dict[str, Row]')], 'list[tuple[str, Row]]', axioms=[
	({'d': 'dict[str, Row]', 'j': 'int'}, 'implies(0 <= j and j < len(row_items(d)), row_items(d)[j][0] in d and d[row_items(d)[j][0]] == row_items(d)[j][1])'),
	({'d': 'dict[str, Row]', 'k': 'str'}, 'implies(k in d, 0 <= rix(d, k) and rix(d, k) < len(row_items(d)) and row_items(d)[rix(d, k)][0] == k)'),
], note='dict.items() of the JSON data as a list (every pair is an entry, every entry is listed)')
external('rix', [('d', 'dict[str, Row]'), ('k', 'str')], 'int', note='Skolem function: position of key k in dict.items()')


external('keys_list', [('d', 'dict[str, Refl]')], 'list[str]', axioms=[
	({'d': 'dict[str, Refl]', 'j': 'int'}, 'implies(0 <= j and j < len(keys_list(d)), keys_list(d)[j] in d)'),
	({'d': 'dict[str, Refl]', 'k': 'str'}, 'implies(k in d, 0 <= kix(d, k) and kix(d, k) < len(keys_list(d)) and keys_list(d)[kix(d, k)] == k)'),
	({'d': 'dict[str, Refl]', 'i': 'int', 'j': 'int'}, 'implies(0 <= i and i < j and j < len(keys_list(d)), keys_list(d)[i] != keys_list(d)[j])'),
], note='dict.keys() as a list: exactly the keys, each once')
external('kix', [('d', 'dict[str, Refl]'), ('k', 'str')], 'int', note='Skolem function: position of key k in dict.keys()')


external('keys_of_module', [('items', 'dict[str, Refl]'), ('paths', 'dict[str, tuple[str, str]]'), ('m', 'str')], 'list[str]', axioms=[
	({'i': 'dict[str, Refl]', 'p': 'dict[str, tuple[str, str]]', 'm': 'str', 'j': 'int'}, 'implies(0 <= j and j < len(keys_of_module(i, p, m)), keys_of_module(i, p, m)[j] in i and p[keys_of_module(i, p, m)[j]][0] == m)'),
	({'i': 'dict[str, Refl]', 'p': 'dict[str, tuple[str, str]]', 'm': 'str', 'k': 'str'}, 'implies(k in i and p[k][0] == m, k in keys_of_module(i, p, m))'),
	({'i': 'dict[str, Refl]', 'p': 'dict[str, tuple[str, str]]', 'm': 'str', 'a': 'int', 'b': 'int'}, 'implies(0 <= a and a < b and b < len(keys_of_module(i, p, m)), keys_of_module(i, p, m)[a] != keys_of_module(i, p, m)[b])'),
], note='[key for key in items.keys() if paths[key][0] == m]: exactly the keys of module m, each once (the comprehension over dict keys read as its specification)')
