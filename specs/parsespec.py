"""Spec vocabulary for C11: the matching engine over abstract pattern entries, tokens and tree entries.

Pattern entries (Pattern | Patterns) and tree entries (ASTToken | ASTTree) are recursive object graphs: the contracts see them
as opaque identities with observers (the observers' native readings are the real attributes)."""
from __future__ import annotations

from pyvc.api import const, external, record, ref, spec, implies, init, last
import specs.gramspec  # noqa: F401  (Rules, PatEntry, enum values)
from specs.gramspec import RULE

SYN = 'rogw/tranp/implements/syntax/tranp/syntax.py'
TOKEN = 'rogw/tranp/implements/syntax/tranp/token.py'

ref('Tok')
ref('Entry')
ref('Tokenizer')
record('Step', {'_steping': 'bool', '_steps': 'int'}, source=(SYN, 'Step'))
record('Context', {'position': 'int'}, source=(SYN, 'Context'))
record('ProgreessMonitor', {'peek': 'int', 'verbose': 'bool'}, source=(SYN, 'ProgreessMonitor'))
record('SyntaxParser', {'rules': 'Rules', 'tokenizer': 'Tokenizer', 'monitor': 'ProgreessMonitor'}, source=(SYN, 'SyntaxParser'))
record('Token.SourceMap', {'begin_line': 'int', 'begin_column': 'int', 'end_line': 'int', 'end_column': 'int'}, source=(TOKEN, 'Token.SourceMap'))
record('ErrorCollector', {'source': 'str', 'tokens': 'list[Tok]', 'steps': 'int'}, source=(SYN, 'ErrorCollector'))

# pattern entries
external('is_group', [('p', 'PatEntry')], 'bool', note='isinstance(pattern, Patterns)')
external('pat_role', [('p', 'PatEntry')], 'int', note='Pattern.role (by value)')
external('pat_comp', [('p', 'PatEntry')], 'int', axioms=[
	({'p': 'PatEntry'}, 'implies(not is_group(p) and pat_role(p) == TERMINAL, pat_comp(p) != NOCOMP)'),
], note='Pattern.comp (by value); a terminal pattern has a comparison method (what Pattern.make builds: C12)')
external('pat_expr', [('p', 'PatEntry')], 'str', note='Pattern.expression')
external('pat_rep', [('p', 'PatEntry')], 'str', note='Patterns.rep (by value)')
external('pat_op', [('p', 'PatEntry')], 'str', note='Patterns.op (by value)')
external('pat_entries', [('p', 'PatEntry')], 'list[PatEntry]', note='Patterns.entries (iteration order)')
external('rev_entries', [('p', 'PatEntry')], 'list[PatEntry]', axioms=[
	({'p': 'PatEntry'}, 'len(rev_entries(p)) == len(pat_entries(p))'),
	({'p': 'PatEntry', 'i': 'int'}, 'implies(0 <= i and i < len(pat_entries(p)), rev_entries(p)[i] == pat_entries(p)[len(pat_entries(p)) - 1 - i])'),
], note='reversed(patterns)')
external('keywords_of', [('r', 'Rules')], 'list[str]', note='Rules.keywords: the terminal strings of the rule set (memoised; collected by recursion over the patterns)')
external('re_full', [('pattern', 'str'), ('s', 'str')], 'bool', note='re.fullmatch(pattern, s) is not None')
# tokens
external('tok_string', [('t', 'Tok')], 'str', note='Token.string')
external('tok_map', [('t', 'Tok')], 'Token.SourceMap', note='Token.source_map')
external('tok_empty', [], 'Tok', note='Token.empty()')
external('tokenize', [('t', 'Tokenizer'), ('source', 'str')], 'list[Tok]', axioms=[
	({'t': 'Tokenizer', 's': 'str'}, 'len(tokenize(t, s)) >= 1'),
	({'t': 'Tokenizer', 's': 'str', 'i': 'int'}, "implies(0 <= i and i < len(tokenize(t, s)), -1 <= tok_map(tokenize(t, s)[i]).begin_line and tok_map(tokenize(t, s)[i]).begin_line < len(s.split('\\n')) and -1 <= tok_map(tokenize(t, s)[i]).begin_column)"),
], note='ITokenizer.parse(source): at least the closing line-break token; every token span starts on a line of the source, synthetic tokens carry -1 (assumed here; SourceMap.make is proved in C16/C13)')
# tree entries
external('is_token', [('e', 'Entry')], 'bool', note='isinstance(entry, ASTToken)')
external('ent_name', [('e', 'Entry')], 'str', note='ASTToken.name / ASTTree.name')
external('ent_children', [('e', 'Entry')], 'list[Entry]', note='ASTTree.children')
external('mk_token', [('name', 'str'), ('t', 'Tok')], 'Entry', axioms=[
	({'n': 'str', 't': 'Tok'}, 'is_token(mk_token(n, t)) and ent_name(mk_token(n, t)) == n'),
], note='ASTToken(name, token)')
external('mk_empty', [], 'Entry', axioms=['is_token(mk_empty())'], note='ASTToken.empty()')
external('mk_tree', [('name', 'str'), ('children', 'list[Entry]')], 'Entry', axioms=[
	({'n': 'str', 'c': 'list[Entry]'}, 'not is_token(mk_tree(n, c)) and ent_name(mk_tree(n, c)) == n and ent_children(mk_tree(n, c)) == c'),
], note='ASTTree(name, children)')
external('as_tree', [('e', 'Entry')], 'Entry', raises={'Errors.Error': None, 'Exception': None}, note='as_a(ASTTree, entry): the entry itself, or a conversion error when it is a token')
external('dsn_right', [('route', 'str'), ('n', 'int')], 'str', note='DSN.right(route, 1): the last element of the search route')
external('dsn_join2', [('a', 'str'), ('b', 'str')], 'str', note='DSN.join(route, name)')
external('err_summary', [('source', 'str'), ('tokens', 'list[Tok]'), ('steps', 'int')], 'str', note='ErrorCollector(source, tokens, steps).summary() (under its own contract)')
external('repr_s', [('s', 'str')], 'str', note='repr() of a str')


@spec
def unwrap1(r: Rules, e: Entry) -> list[Entry]:
	"""What one child contributes to its parent: itself, its only child ([1]), or all its children ([*])."""
	if is_token(e):
		return [e]
	if unwrap_of(r, ent_name(e)) == '1' and len(ent_children(e)) == 1:
		return [ent_children(e)[0]]
	if unwrap_of(r, ent_name(e)) == '*':
		return ent_children(e)
	return [e]


@spec(decreases='len(cs)')
def unwrapped(r: Rules, cs: list[Entry]) -> list[Entry]:
	"""The children of a tree after the unwrap rules are applied to each child, in order."""
	if len(cs) == 0:
		return []
	return unwrapped(r, init(cs)) + unwrap1(r, last(cs))
