"""Spec vocabulary for C05 (on-disk caches)."""
from __future__ import annotations

from pyvc.api import spec, external, ref, record

PERS = 'rogw/tranp/semantics/reflection/persistent.py'
MOD = 'rogw/tranp/module/module.py'
CACHE = 'rogw/tranp/cache/cache.py'

ref('Serializer')
ref('Loader')
ref('ModuleRef')
ref('Entrypoint')
ref('ModulePathRef')
record('CacheSetting', {'basedir': 'str', 'enabled': 'bool'}, source=(CACHE, 'CacheSetting'))
record('SymbolDBPersistor', {'setting': 'CacheSetting', 'serializer': 'Serializer', 'sources': 'Loader'}, source=(PERS, 'SymbolDBPersistor'))
record('Module', {'_Module__module_path': 'ModulePathRef', '_Module__entrypoint': 'Entrypoint', '_Module__sources': 'Loader', '_Module__identity': 'str'}, source=(MOD, 'Module'))

external('mod_in_storage', [('m', 'ModuleRef')], 'bool', note='Module.in_storage(): the module file exists')
external('src_exists', [('l', 'Loader'), ('p', 'str')], 'bool', note='ISourceLoader.exists')
external('symbols_path', [('p', 'SymbolDBPersistor'), ('m', 'ModuleRef')], 'str', note='SymbolDBPersistor._gen_filepath(module): the symbols file of the module under the cache directory')
external('src_hash', [('l', 'Loader'), ('p', 'str')], 'str', note='ISourceLoader.hash: md5 of the file content')
external('import_files', [('e', 'Entrypoint')], 'list[str]', note='file paths of the modules imported *directly* by the module (entrypoint.imports)')
external('own_file', [('p', 'ModulePathRef')], 'str', note='Module.filepath')
external('md5_of_list', [('xs', 'list[str]')], 'str', axioms=[({'a': 'list[str]', 'b': 'list[str]'}, 'implies(md5_of_list(a) == md5_of_list(b), a == b)')],
	note='hashlib.md5(str(list)) treated as injective on the lists that occur')
external('instance_id', [('m', 'Module')], 'str', note='str(id(self))')


@spec(decreases='n')
def hashes(l: Loader, files: list[str], n: int) -> list[str]:
	"""Content hashes of the first n files, in order."""
	if n <= 0:
		return []
	return hashes(l, files, n - 1) + [src_hash(l, files[n - 1])]


ref('StoredRef')
ref('FactoryRef')
ref('StoredCls')
ref('IdentityRef')
ref('OptionsRef')
record('CachedRec', {'_stored': 'StoredCls', '_factory': 'FactoryRef', '_identity': 'IdentityRef', '_basedir': 'str', '_options': 'OptionsRef'}, source=(CACHE, 'Cached'))
external('run_factory', [('f', 'FactoryRef')], 'StoredRef', note='calling the wrapped factory (its value for the current sources)')
external('cache_path_of', [('c', 'CachedRec'), ('key', 'str')], 'str', note='CachedProxy.gen_cache_path: <basedir>/<key>-<md5(identity)>.<format>')
external('fs_exists', [('p', 'str')], 'bool', note='os.path.exists')
external('fs_load', [('c', 'CachedRec'), ('p', 'str')], 'StoredRef', note='stored.load(open(p))')
external('fs_save', [('c', 'CachedRec'), ('i', 'StoredRef'), ('p', 'str')], 'bool', note='save_cache: remove older siblings by glob, write the instance')
