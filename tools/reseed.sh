#!/bin/bash
# tools/reseed.sh [seed-dir-prefix...] : re-run kept seeded changes against the check of their property; prints caught / missed per seed
cd /verif
for sd in $(ls seeded | sort); do
	match=0; if [ $# -eq 0 ]; then match=1; fi
	for p in "$@"; do case $sd in $p*) match=1;; esac; done
	[ $match -eq 1 ] || continue
	prop=$(python3 -c "import json;print(json.load(open('/verif/seeded/$sd/meta.json'))['breaks_property'])")
	py=$(python3 -c "import json;print('313' if '3.13' in json.load(open('/verif/seeded/$sd/meta.json'))['demo'] else '312')")
	was=$(python3 -c "import json;print(json.load(open('/verif/seeded/$sd/meta.json'))['detected_by_checks'])")
	out=$(tools/try_seed.sh $sd /verif/seeded/$sd/patch.diff /verif/seeded/$sd/demo.py $py $prop 2>&1)
	d0=$(echo "$out" | grep "demo on unchanged" | sed 's/.*exit //'); d1=$(echo "$out" | grep "demo with change" | sed 's/.*exit //')
	vio=$(echo "$out" | grep -c "^VIOLATION"); tests=$(echo "$out" | grep "tests with change" | sed 's/.*: //' | cut -c1-40)
	echo "$sd prop=$prop recorded=$was demo_clean=$d0 demo_patched=$d1 tests=[$tests] violations=$vio"
done
