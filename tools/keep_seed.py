#!/usr/bin/env python3
"""tools/keep_seed.py <seed-id> <property> <patch> <demo> <py> <caught:yes|no|partial> "<needs>" "<by which check/obligation>" [extra files...]"""
import json, os, shutil, sys
sid, prop, patch, demo, py, caught, needs, by = sys.argv[1:9]
extra = sys.argv[9:]
d = f'/verif/seeded/{sid}'
os.makedirs(d, exist_ok=True)
shutil.copy(patch, f'{d}/patch.diff')
shutil.copy(demo, f'{d}/demo.py')
for e in extra:
	shutil.copy(e, d)
meta = {
	'id': sid, 'breaks_property': prop, 'needs_to_manifest': needs,
	'demo': f'demo.py (python {py}; exits 0 on the unchanged tree, non-zero with patch.diff applied; run from the repo root after copying it to <repo>/_seeded/)',
	'confirmed': 'tools/try_seed.sh: patch applies to /repo HEAD, baseline tests unchanged (4 failed, 334 passed, 3 errors), demo passes without / fails with the patch',
	'detected_by_checks': caught, 'detected_how': by,
}
json.dump(meta, open(f'{d}/meta.json', 'w'), indent=1)
print('kept', d)
