#!/bin/bash
cd /verif
cp -r evidence /tmp/evidence_thorough_backup
for p in $(python3 -c "import json; print(' '.join(c['property_id'] for c in json.load(open('MANIFEST.json'))['checks']))"); do
	t0=$(date +%s); out=$(./check $p --tier thorough 2>&1); rc=$?; t1=$(date +%s)
	echo "$p exit=$rc $((t1-t0))s $(echo "$out" | grep 'obligations discharged' | cut -c1-100)"
	if [ $rc -ne 0 ]; then echo "$out" | grep -v KNOWN | tail -5 | cut -c1-300; fi
done
rm -rf evidence && mv /tmp/evidence_thorough_backup evidence
