#!/bin/bash
# tools/soak.sh [seeds...] : run every claimed quick check with several seeds on the unchanged tree; any non-zero exit is listed.
cd /verif
props=$(python3 -c "import json; print(' '.join(c['property_id'] for c in json.load(open('MANIFEST.json'))['checks']))")
rm -rf /tmp/evidence_soak && cp -r evidence /tmp/evidence_soak
for seed in ${@:-1 2 3}; do
	for p in $props; do
		out=$(VERIF_SEED=$seed ./check $p --strict 2>&1); rc=$?
		echo "seed=$seed $p exit=$rc $(echo "$out" | grep -v KNOWN | grep -c VIOLATION) violations; $(echo "$out" | grep 'obligations discharged' | cut -c1-90)"
		if [ $rc -ne 0 ]; then echo "$out" | grep -v KNOWN | tail -4 | cut -c1-300; fi
	done
done
rm -rf evidence && mv /tmp/evidence_soak evidence
