#!/bin/bash
# tools/try_seed.sh <name> <patch.diff> <demo.py> <py:312|313> <PROP> [<PROP>...]
# Applies a seeded change to /repo, confirms (tests unchanged, demo fails with / passes without), runs the checks, reverts.
set -u
name=$1; patch=$2; demo=$3; py=$4; shift 4
cd /repo
if [ -n "$(git status --porcelain)" ]; then echo "repo not clean"; exit 2; fi
SKIPCHECK=${SKIPCHECK:-}
mkdir -p /repo/_seeded && cp "$(dirname "$demo")"/*.py /repo/_seeded/ 2>/dev/null; demo=/repo/_seeded/$(basename "$demo")
run_demo() {
	if [ "$py" = "313" ]; then (cd /repo && PYTHONPATH=/repo:/venv/lib/python3.12/site-packages timeout 600 /root/.pyenv/versions/3.13.0/bin/python "$demo" >/tmp/seed_demo.log 2>&1); else (cd /repo && PYTHONPATH=/repo timeout 600 /venv/bin/python "$demo" >/tmp/seed_demo.log 2>&1); fi
	echo $?
}
rm -rf /tmp/evidence_backup && cp -r /verif/evidence /tmp/evidence_backup
echo "== demo on unchanged tree: exit $(run_demo)"
git apply "$patch" || { echo "patch does not apply"; exit 2; }
echo "== tests with change: $(/venv/bin/python -m pytest -q -p no:cacheprovider --timeout=900 --continue-on-collection-errors 2>&1 | tail -1)"
rm -rf /repo/.cache
echo "== tests with change, cold cache: $(/venv/bin/python -m pytest -q -p no:cacheprovider --timeout=900 --continue-on-collection-errors 2>&1 | tail -1)"
echo "== demo with change: exit $(run_demo)"; tail -3 /tmp/seed_demo.log
for p in "$@"; do
	echo "== check $p with change:"
	(cd /verif && ./check $p 2>&1 | grep -E "VIOLATION|KNOWN|obligations discharged|MACHINERY" | head -8; echo "   exit=${PIPESTATUS[0]}")
done
git checkout -- . ; git status --porcelain | head -3
rm -rf /verif/evidence && mv /tmp/evidence_backup /verif/evidence
rm -rf /repo/.cache /repo/_seeded 2>/dev/null
