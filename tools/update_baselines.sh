#!/bin/bash
# tools/update_baselines.sh : on the clean tree, re-record for every claimed property the obligations that are discharged and the sha1 of every source file read
cd /verif
if [ -n "$(git -C /repo status --porcelain)" ]; then echo "repo not clean"; exit 2; fi
props=$(python3 -c "import json; print(' '.join(c['property_id'] for c in json.load(open('MANIFEST.json'))['checks']))")
for p in $props; do
	out=$(./check $p --strict --update-baseline 2>&1); rc=$?
	echo "$p exit=$rc $(echo "$out" | grep 'obligations discharged' | cut -c1-110)"
	if [ $rc -ne 0 ]; then echo "$out" | grep -v KNOWN | tail -4 | cut -c1-300; fi
done
rm -rf /repo/.cache
