"""Types of the verified Python subset and their SMT sorts.

Every symbolic value carries a `Ty`.  Sorts are created once per process (z3 datatypes are global by name).
"""
from __future__ import annotations

import ast
from dataclasses import dataclass
from typing import Any

import itertools

import z3

_dsz = itertools.count()


class Ty:
	def sort(self) -> z3.SortRef:
		raise NotImplementedError

	def __str__(self) -> str:
		return self.name()

	def name(self) -> str:
		raise NotImplementedError


@dataclass(frozen=True)
class TInt(Ty):
	def sort(self): return z3.IntSort()
	def name(self): return 'int'


@dataclass(frozen=True)
class TBool(Ty):
	def sort(self): return z3.BoolSort()
	def name(self): return 'bool'


@dataclass(frozen=True)
class TStr(Ty):
	def sort(self): return z3.StringSort()
	def name(self): return 'str'


_uninterp: dict[str, z3.SortRef] = {}


def usort(name: str) -> z3.SortRef:
	if name not in _uninterp:
		_uninterp[name] = z3.DeclareSort(name)
	return _uninterp[name]


@dataclass(frozen=True)
class TFloat(Ty):
	def sort(self): return usort('Float')
	def name(self): return 'float'


@dataclass(frozen=True)
class TRef(Ty):
	"""Opaque object identity (an uninterpreted sort)."""
	rname: str
	def sort(self): return usort(self.rname)
	def name(self): return self.rname


_dt_cache: dict[str, Any] = {}


def _mk_dt(name: str, ctors: list[tuple[str, list[tuple[str, z3.SortRef]]]]):
	if name in _dt_cache:
		return _dt_cache[name]
	dt = z3.Datatype(name)
	for cname, fields in ctors:
		dt.declare(cname, *fields)
	s = dt.create()
	_dt_cache[name] = s
	return s


@dataclass(frozen=True)
class TNone(Ty):
	def sort(self): return _mk_dt('NoneT', [('NoneV', [])])
	def name(self): return 'None'


@dataclass(frozen=True)
class TList(Ty):
	elem: Ty
	def sort(self): return z3.SeqSort(self.elem.sort())
	def name(self): return f'list[{self.elem}]'


def _san(s: str) -> str:
	return ''.join(c if c.isalnum() else '_' for c in s)


@dataclass(frozen=True)
class TTuple(Ty):
	items: tuple[Ty, ...]
	def dtname(self): return 'Tup_' + '_'.join(_san(str(t)) for t in self.items)
	def sort(self):
		n = self.dtname()
		return _mk_dt(n, [(f'mk_{n}', [(f'{n}_{i}', t.sort()) for i, t in enumerate(self.items)])])
	def name(self): return f'tuple[{", ".join(str(t) for t in self.items)}]'
	def mk(self, *terms): return self.sort().constructor(0)(*terms)
	def get(self, term, i): return self.sort().accessor(0, i)(term)


@dataclass(frozen=True)
class TOpt(Ty):
	inner: Ty
	def dtname(self): return 'Opt_' + _san(str(self.inner))
	def sort(self):
		n = self.dtname()
		return _mk_dt(n, [(f'none_{n}', []), (f'some_{n}', [(f'val_{n}', self.inner.sort())])])
	def name(self): return f'{self.inner} | None'
	def none(self): return self.sort().constructor(0)()
	def some(self, t): return self.sort().constructor(1)(t)
	def is_none(self, t): return self.sort().recognizer(0)(t)
	def is_some(self, t): return self.sort().recognizer(1)(t)
	def val(self, t): return self.sort().accessor(1, 0)(t)


@dataclass(frozen=True)
class TUnion(Ty):
	uname: str
	alts: tuple[Ty, ...]
	def sort(self):
		n = self.uname
		return _mk_dt(n, [(f'{n}_{_san(str(a))}', [(f'{n}_as_{_san(str(a))}', a.sort())]) for a in self.alts])
	def name(self): return self.uname
	def index(self, t: Ty) -> int:
		return self.alts.index(t)
	def inject(self, t: Ty, term): return self.sort().constructor(self.index(t))(term)
	def is_a(self, t: Ty, term): return self.sort().recognizer(self.index(t))(term)
	def proj(self, t: Ty, term): return self.sort().accessor(self.index(t), 0)(term)


@dataclass(frozen=True)
class TRec(Ty):
	rname: str
	fields: tuple[tuple[str, Ty], ...]
	def sort(self):
		n = 'Rec_' + _san(self.rname)
		return _mk_dt(n, [(f'mk_{n}', [(f'{n}__{_san(f)}', t.sort()) for f, t in self.fields])])
	def name(self): return self.rname
	def fnames(self): return [f for f, _ in self.fields]
	def fty(self, f: str) -> Ty: return dict(self.fields)[f]
	def mk(self, *terms): return self.sort().constructor(0)(*terms)
	def get(self, term, f: str): return self.sort().accessor(0, self.fnames().index(f))(term)
	def set(self, term, f: str, new):
		return self.mk(*[new if g == f else self.get(term, g) for g in self.fnames()])


@dataclass(frozen=True)
class TEnum(Ty):
	ename: str
	members: tuple[str, ...]
	def sort(self):
		n = 'Enum_' + _san(self.ename)
		return _mk_dt(n, [(f'{n}_{m}', []) for m in self.members])
	def name(self): return self.ename
	def member(self, m: str): return self.sort().constructor(self.members.index(m))()


@dataclass(frozen=True)
class TDict(Ty):
	"""dict as (domain array, value array, size).  Iteration order is not modelled here."""
	key: Ty
	val: Ty
	def dtname(self): return 'Dict_' + _san(str(self.key)) + '__' + _san(str(self.val))
	def sort(self):
		n = self.dtname()
		return _mk_dt(n, [(f'mk_{n}', [(f'{n}_dom', z3.ArraySort(self.key.sort(), z3.BoolSort())), (f'{n}_val', z3.ArraySort(self.key.sort(), self.val.sort())), (f'{n}_size', z3.IntSort())])])
	def name(self): return f'dict[{self.key}, {self.val}]'
	def mk(self, dom, val, size=None):
		if size is None:
			size = z3.Const(f'dsize!{next(_dsz)}', z3.IntSort())  # unknown size (merge / comprehension results)
		return self.sort().constructor(0)(dom, val, size)
	def dom(self, t): return self.sort().accessor(0, 0)(t)
	def vals(self, t): return self.sort().accessor(0, 1)(t)
	def size(self, t): return self.sort().accessor(0, 2)(t)
	def empty(self):
		return self.mk(z3.K(self.key.sort(), z3.BoolVal(False)), z3.K(self.key.sort(), default_term(self.val)), z3.IntVal(0))


INT, BOOL, STR, FLOAT, NONE = TInt(), TBool(), TStr(), TFloat(), TNone()


def default_term(t: Ty):
	"""Some closed term of the sort (used for the value array of an empty dict; never observable)."""
	return z3.Const(f'dflt_{_san(str(t))}', t.sort())


class TypeEnv:
	"""Resolves annotation syntax to Ty; aliases and class records are supplied by contracts."""

	def __init__(self, aliases: dict[str, Ty] | None = None):
		self.aliases: dict[str, Ty] = dict(aliases or {})

	def parse(self, ann: ast.expr | str | None) -> Ty | None:
		if ann is None:
			return None
		if isinstance(ann, str):
			ann = ast.parse(ann, mode='eval').body
		return self._p(ann)

	def _p(self, n: ast.expr) -> Ty:
		txt = ast.unparse(n)
		if txt in self.aliases:
			return self.aliases[txt]
		if isinstance(n, ast.Constant):
			if n.value is None:
				return NONE
			if isinstance(n.value, str):
				return self._p(ast.parse(n.value, mode='eval').body)
		if isinstance(n, ast.Name):
			base = {'int': INT, 'bool': BOOL, 'str': STR, 'float': FLOAT, 'None': NONE}
			if n.id in base:
				return base[n.id]
		if isinstance(n, ast.BinOp) and isinstance(n.op, ast.BitOr):
			l, r = self._p(n.left), self._p(n.right)
			if r == NONE:
				return TOpt(l)
			if l == NONE:
				return TOpt(r)
			raise TypeError(f'union without alias: {txt}')
		if isinstance(n, ast.Subscript):
			head = ast.unparse(n.value)
			args = n.slice.elts if isinstance(n.slice, ast.Tuple) else [n.slice]
			if head in ('list', 'Sequence', 'List', 'Iterator'):
				return TList(self._p(args[0]))
			if head in ('tuple', 'Tuple'):
				if len(args) == 2 and isinstance(args[1], ast.Constant) and args[1].value is Ellipsis:
					return TList(self._p(args[0]))
				return TTuple(tuple(self._p(a) for a in args))
			if head in ('dict', 'Dict'):
				return TDict(self._p(args[0]), self._p(args[1]))
			if head in ('Optional',):
				return TOpt(self._p(args[0]))
			if head in ('type',):
				return self._p(ast.parse('type', mode='eval').body)
		raise TypeError(f'unsupported annotation: {txt}')
