"""Statement execution, loops cut at invariants, try/except, function and lemma verification entry points."""
from __future__ import annotations

import ast
import itertools
from typing import Any, Callable, Iterator

import z3

from . import source
from .api import REG, Contract, Lemma, Loop
from .engine import (Engine, Ev, FnCtx, Infeasible, Oracle, RaiseSignal, assigned_vars, fresh_name)
from .smt import quick_unsat, simp
from .ty import (BOOL, INT, NONE, STR, TDict, TInt, TList, TNone, TOpt, TRec, TStr, TTuple, TUnion, Ty)
from .values import NOCONC, ClassRef, EngineError, ExcVal, FuncRef, State, Val, py_to_val, seq_of

Outcome = tuple[str, Any, State]
import builtins as _b
BUILTIN_NAMES = set(dir(_b))


def explore(eng: Engine, fn: FnCtx, st: State, f: Callable[[Ev], Any], line: int = 0) -> Iterator[Outcome]:
	"""Run f under every resolution of its nondeterministic choices (DFS over oracle prefixes)."""
	stack: list[list[int]] = [[]]
	while stack:
		prefix = stack.pop()
		st2 = st.copy()
		orc = Oracle(prefix)
		ev = Ev(eng, fn, st2, orc)
		ev.cur_line = line  # type: ignore[attr-defined]
		try:
			res = f(ev)
			out: Outcome | None = ('ok', res, st2)
		except RaiseSignal as r:
			out = ('raise', r.exc, st2)
		except Infeasible:
			out = None
		for i in range(len(prefix), len(orc.trace)):
			_, arity = orc.trace[i]
			for alt in range(1, arity):
				stack.append([c for c, _ in orc.trace[:i]] + [alt])
		if out is not None:
			eng.path_count += 1
			if fn.contract is not None and eng.path_count > 200000:
				raise EngineError('path explosion')
			yield out


def feasible(st: State) -> bool:
	return not quick_unsat(st.pc)


def assign_target(ev: Ev, target: ast.expr, val: Val) -> None:
	c = ev.fn.contract
	if c is not None and c.rewrites and isinstance(target, (ast.Attribute, ast.Subscript)):
		txt = ast.unparse(target)
		if txt in c.rewrites:
			target = ast.parse(c.rewrites[txt], mode='eval').body  # the rewritten place (e.g. a property that denotes an element of a field)
	if isinstance(target, ast.Name):
		old = ev.st.env.get(target.id)
		declared = ev.fn.__dict__.setdefault('declared', {}).get(target.id)
		if declared is not None and val.ty is not None:
			val = ev.coerce(val, declared)
		elif old is not None and old.ty is not None and val.ty is not None and old.ty != val.ty:
			try:
				val = ev.coerce(val, old.ty)
			except EngineError:
				pass
		ev.st.env[target.id] = val
		return
	if isinstance(target, (ast.Tuple, ast.List)):
		env: dict[str, Val] = {}
		ev.bind_target(target, val, env)
		for k, v in env.items():
			assign_target(ev, ast.Name(k, ast.Store()), v)
		return
	if isinstance(target, ast.Attribute):
		obj = ev.eval(target.value)
		if isinstance(obj.ty, TRec):
			f = target.attr if target.attr in obj.ty.fnames() else source.mangle(ev.fn.cname, target.attr)
			if f not in obj.ty.fnames():
				raise EngineError(f'assignment to undeclared field {target.attr} of {obj.ty.rname}')
			nv = ev.coerce(val, obj.ty.fty(f))
			assign_target(ev, target.value, Val(obj.ty, obj.ty.set(obj.term, f, nv.term)))
			return
		raise EngineError(f'attribute assignment on {obj.ty}')
	if isinstance(target, ast.Subscript):
		obj = ev.eval(target.value)
		if isinstance(obj.ty, TDict):
			k = ev.coerce(ev.eval(target.slice), obj.ty.key)
			v = ev.coerce(val, obj.ty.val)
			assign_target(ev, target.value, ev.dict_store(obj, k, v))
			return
		if isinstance(obj.ty, TList) and not isinstance(target.slice, ast.Slice):
			idx = ev.eval(target.slice)
			ln = z3.Length(obj.term)
			i = ev.norm_index(idx, ln)
			ev.exit_if(z3.Or(i < 0, i >= ln), 'IndexError')
			v = ev.coerce(val, obj.ty.elem)
			assign_target(ev, target.value, Val(obj.ty, z3.Concat(z3.Extract(obj.term, 0, i), z3.Unit(v.term), z3.Extract(obj.term, i + 1, ln - i - 1))))
			return
		raise EngineError(f'subscript assignment on {obj.ty}')
	raise EngineError(f'assignment target {ast.unparse(target)}')


def exec_block(eng: Engine, fn: FnCtx, stmts: list[ast.stmt], st: State) -> Iterator[Outcome]:
	if not stmts:
		yield ('normal', None, st)
		return
	head, rest = stmts[0], stmts[1:]
	for kind, payload, st2 in exec_stmt(eng, fn, head, st):
		if kind == 'normal':
			yield from exec_block(eng, fn, rest, st2)
		else:
			yield (kind, payload, st2)


def exec_stmt(eng: Engine, fn: FnCtx, s: ast.stmt, st: State) -> Iterator[Outcome]:
	ln = getattr(s, 'lineno', 0)
	if fn.contract is not None and fn.contract.stmt_rewrites and not getattr(s, '_rewritten', False):
		txt = ast.unparse(s)
		rep = fn.contract.stmt_rewrites.get(txt)
		if rep is not None:
			eng.used_rewrites.add(f'{fn.label}: statement `{txt}`  ~>  `{rep.strip()}`')
			cache = fn.__dict__.setdefault('_rw_cache', {})
			if txt not in cache:
				body = ast.parse(rep).body
				for b in body:
					for n in ast.walk(b):
						if isinstance(n, ast.stmt):
							n._rewritten = True  # type: ignore[attr-defined]
							n.lineno = ln
						if isinstance(n, (ast.For, ast.While)):
							# loops introduced by a statement rewrite are numbered after the function's own loops
							fn.loop_ord[id(n)] = (max(fn.loop_ord.values()) + 1) if fn.loop_ord else 0
				cache[txt] = body
			body = cache[txt]
			yield from exec_block(eng, fn, body, st)
			return

	def simple(f: Callable[[Ev], Any]) -> Iterator[Outcome]:
		for kind, res, st2 in explore(eng, fn, st, f, ln):
			if kind == 'ok':
				yield ('normal', None, st2)
			else:
				yield ('raise', res, st2)

	if isinstance(s, ast.Expr):
		if isinstance(s.value, ast.Constant):
			yield ('normal', None, st)
			return
		yield from simple(lambda ev: ev.eval(s.value))
		return
	if isinstance(s, ast.Pass):
		yield ('normal', None, st)
		return
	if isinstance(s, ast.Assign):
		def do(ev: Ev) -> None:
			v = eval_with_hint(ev, s.value, s.targets[0])
			for t in s.targets:
				assign_target(ev, t, v)
		yield from simple(do)
		return
	if isinstance(s, ast.AnnAssign):
		if s.value is None:
			if isinstance(s.target, ast.Name):
				try:
					fn.__dict__.setdefault('declared', {})[s.target.id] = eng.ty(s.annotation, fn)
				except TypeError:
					pass
			yield ('normal', None, st)
			return
		def do2(ev: Ev) -> None:
			ty = None
			try:
				ty = eng.ty(s.annotation, fn)
			except TypeError:
				if isinstance(s.target, ast.Name) and fn.contract and s.target.id in fn.contract.types:
					ty = eng.tenv.parse(fn.contract.types[s.target.id])
			if isinstance(s.target, ast.Name) and fn.contract and s.target.id in fn.contract.types:
				ty = eng.tenv.parse(fn.contract.types[s.target.id])
			v = eval_typed(ev, s.value, ty)
			if isinstance(s.target, ast.Name) and ty is not None:
				fn.__dict__.setdefault('declared', {})[s.target.id] = ty
			assign_target(ev, s.target, v)
		yield from simple(do2)
		return
	if isinstance(s, ast.AugAssign):
		def do3(ev: Ev) -> None:
			cur = ev.eval(s.target)
			v = ev.binop(cur, s.op, ev.eval(s.value), s)
			assign_target(ev, s.target, v)
		yield from simple(do3)
		return
	if isinstance(s, ast.Return):
		def ret(ev: Ev) -> Val:
			if s.value is None:
				return ev.lift(None)
			if fn.depth > 0:
				try:
					return eval_typed(ev, s.value, fn.ret_ty)
				except EngineError:
					return ev.eval(s.value)  # inlined callee: Python does not enforce the return annotation
			return eval_typed(ev, s.value, fn.ret_ty)
		for kind, res, st2 in explore(eng, fn, st, ret, ln):
			yield ('return', res, st2) if kind == 'ok' else ('raise', res, st2)
		return
	if isinstance(s, ast.Raise):
		def do4(ev: Ev) -> None:
			if s.exc is None:
				cur = fn.__dict__.get('handling')
				if cur is None:
					raise EngineError('bare raise outside handler')
				raise RaiseSignal(cur)
			v = ev.eval(s.exc)
			if isinstance(v, ClassRef):
				v = ExcVal(None, cname=v.cname)
			if not isinstance(v, ExcVal):
				raise EngineError(f'raise of {ast.unparse(s.exc)[:60]}')
			raise RaiseSignal(v)
		yield from simple(do4)
		return
	if isinstance(s, ast.Assert):
		def do5(ev: Ev) -> None:
			c = ev.truth(s.test)
			ev.exit_if(z3.Not(c), 'AssertionError')
		yield from simple(do5)
		return
	if isinstance(s, ast.If):
		for kind, res, st2 in explore(eng, fn, st, lambda ev: ev.truth(s.test), ln):
			if kind == 'raise':
				yield ('raise', res, st2)
				continue
			c = simp(res)
			if not z3.is_false(c):
				sa = st2.copy()
				sa.assume(c)
				if z3.is_true(c) or feasible(sa):
					yield from exec_block(eng, fn, s.body, sa)
			if not z3.is_true(c):
				sb = st2.copy()
				sb.assume(z3.Not(c))
				if z3.is_false(c) or feasible(sb):
					yield from exec_block(eng, fn, s.orelse, sb)
		return
	if isinstance(s, ast.While):
		yield from exec_while(eng, fn, s, st)
		return
	if isinstance(s, ast.For):
		yield from exec_for(eng, fn, s, st)
		return
	if isinstance(s, ast.Break):
		yield ('break', None, st)
		return
	if isinstance(s, ast.Continue):
		yield ('continue', None, st)
		return
	if isinstance(s, ast.Try):
		yield from exec_try(eng, fn, s, st)
		return
	if isinstance(s, ast.Delete):
		def do6(ev: Ev) -> None:
			for t in s.targets:
				if not isinstance(t, ast.Subscript):
					raise EngineError('del of a name')
				obj = ev.eval(t.value)
				if isinstance(obj.ty, TDict):
					k = ev.coerce(ev.eval(t.slice), obj.ty.key)
					ev.exit_if(z3.Not(z3.Select(obj.ty.dom(obj.term), k.term)), 'KeyError')
					assign_target(ev, t.value, Val(obj.ty, obj.ty.mk(z3.Store(obj.ty.dom(obj.term), k.term, z3.BoolVal(False)), obj.ty.vals(obj.term), obj.ty.size(obj.term) - 1)))
				elif isinstance(obj.ty, TList) and not isinstance(t.slice, ast.Slice):
					idx = ev.eval(t.slice)
					n = z3.Length(obj.term)
					i = ev.norm_index(idx, n)
					ev.exit_if(z3.Or(i < 0, i >= n), 'IndexError')
					assign_target(ev, t.value, Val(obj.ty, z3.Concat(z3.Extract(obj.term, 0, i), z3.Extract(obj.term, i + 1, n - i - 1))))
				else:
					raise EngineError(f'del on {obj.ty}')
		yield from simple(do6)
		return
	if isinstance(s, ast.With):
		# context managers are read as: evaluate the context expression (usually an assumed external), bind it, run the body; __exit__ is not modelled
		def enter(ev: Ev) -> None:
			for item in s.items:
				v = ev.eval(item.context_expr)
				if item.optional_vars is not None:
					assign_target(ev, item.optional_vars, v)
		for kind, res, st2 in explore(eng, fn, st, enter, ln):
			if kind == 'raise':
				yield ('raise', res, st2)
			else:
				yield from exec_block(eng, fn, s.body, st2)
		return
	if isinstance(s, ast.FunctionDef):
		fn.local_funcs[s.name] = s
		yield ('normal', None, st)
		return
	if isinstance(s, (ast.Import, ast.ImportFrom, ast.Global, ast.Nonlocal)):
		yield ('normal', None, st)
		return
	raise EngineError(f'unsupported statement {type(s).__name__} at {fn.label}:{ln}')


def eval_typed(ev: Ev, node: ast.expr, ty: Ty | None) -> Val:
	if ty is not None and isinstance(node, ast.IfExp) and isinstance(ty, (TUnion, TOpt)):
		# branches of different member types meet in the declared union / optional type of the target
		c = ev.truth(node.test)
		saved = list(ev.guards)
		try:
			ev.guards[:] = saved + [c]
			a = eval_typed(ev, node.body, ty)
			ev.guards[:] = saved + [z3.Not(c)]
			b = eval_typed(ev, node.orelse, ty)
		finally:
			ev.guards[:] = saved
		return Val(ty, z3.If(c, a.term, b.term))
	if ty is not None:
		if isinstance(node, ast.List) and isinstance(ty, TList):
			return ev.seq_display(node.elts, ty)
		if isinstance(node, ast.Dict) and isinstance(ty, TDict):
			node._want = ty  # type: ignore[attr-defined]
		if isinstance(node, ast.Tuple) and isinstance(ty, TTuple) and len(node.elts) == len(ty.items) and not any(isinstance(e, ast.Starred) for e in node.elts):
			vals = [eval_typed(ev, e, t) for e, t in zip(node.elts, ty.items)]
			return Val(ty, ty.mk(*[v.term for v in vals]))
	v = ev.eval(node)
	return ev.coerce(v, ty) if ty is not None and v.ty is not None else v


def eval_with_hint(ev: Ev, node: ast.expr, target: ast.expr) -> Val:
	ty = None
	if isinstance(target, ast.Name):
		ty = ev.fn.__dict__.get('declared', {}).get(target.id)
		if ty is None and target.id in ev.st.env and isinstance(node, (ast.List, ast.Dict)):
			ty = ev.st.env[target.id].ty
		if ev.fn.contract and target.id in ev.fn.contract.types:
			ty = ev.eng.tenv.parse(ev.fn.contract.types[target.id])
	elif isinstance(target, ast.Attribute) and isinstance(node, (ast.List, ast.Dict)):
		try:
			obj = ev.eval(target.value)
			if isinstance(obj.ty, TRec):
				f = target.attr if target.attr in obj.ty.fnames() else source.mangle(ev.fn.cname, target.attr)
				ty = obj.ty.fty(f)
		except EngineError:
			ty = None
	return eval_typed(ev, node, ty)


# ------------------------------------------------------------------------------------------- loops
def clause_terms(eng: Engine, fn: FnCtx, st: State, clauses: list[str], old: State | None = None, prev: State | None = None) -> list[tuple[str, Any]]:
	out = []
	for c in clauses:
		ev = Ev(eng, fn, st, Oracle([]), 'spec', old, None, prev)
		out.append((c, ev.truth(ast.parse(c, mode='eval').body)))
	return out


def run_hints(eng: Engine, fn: FnCtx, st: State, hints: list[str], old: State | None = None, prev: State | None = None) -> None:
	for h in hints:
		ev = Ev(eng, fn, st, Oracle([]), 'spec', old, None, prev)
		ev.eval(ast.parse(h, mode='eval').body)


def loop_spec(fn: FnCtx, node: ast.AST) -> Loop | None:
	k = fn.loop_ord.get(id(node))
	if fn.contract is None or k is None:
		return None
	# loops of inlined helpers are annotated in the helper's own (inline_only) contract
	if not fn.contract.inline_only:
		return fn.contract.loops.get(k)
	own = REG.contracts.get((fn.src.file, fn.src.qualname)) if fn.src else None
	if own is not None and k in own.loops:
		return own.loops[k]
	return fn.contract.loops.get(k)


def modified_fields(fn: FnCtx, body: list[ast.stmt], var: str, depth: int = 0) -> set[str] | None:
	"""Fields of the record variable `var` that `body` may change (None = unknown: all of them)."""
	out: set[str] = set()

	def field_of(t: ast.expr) -> str | None:
		# var.f, var.f[k], var.f.g ... -> f
		chain = []
		while isinstance(t, (ast.Attribute, ast.Subscript)):
			if isinstance(t, ast.Attribute):
				chain.append(t.attr)
			t = t.value
		if isinstance(t, ast.Name) and t.id == var and chain:
			return chain[-1]
		return None

	for stt in body:
		for n in ast.walk(stt):
			targets: list[ast.expr] = []
			if isinstance(n, ast.Assign):
				targets = list(n.targets)
			elif isinstance(n, (ast.AugAssign, ast.AnnAssign)):
				targets = [n.target]
			elif isinstance(n, ast.Delete):
				targets = list(n.targets)
			for t in targets:
				if isinstance(t, ast.Name) and t.id == var:
					return None
				f = field_of(t)
				if f:
					out.add(source.mangle(fn.cname, f))
			if isinstance(n, ast.Call) and isinstance(n.func, ast.Attribute):
				recv = n.func.value
				if isinstance(recv, ast.Name) and recv.id == var and fn.src is not None:
					name = n.func.attr
					cls = fn.cname if (name.startswith('__') and not name.endswith('__')) else (fn.dyn or fn.cname)
					m = source.find_method(fn.src.file, cls, name) if cls else None
					if m is None:
						return None
					c = (REG.contracts.get((m.file, f'{m.qualname}@{fn.dyn}')) if fn.dyn else None) or REG.contracts.get((m.file, m.qualname))
					if c is not None and not c.inline_only:
						sp = m.node.args.args[0].arg if m.node.args.args else 'self'
						for mm in c.modifies:
							if mm == sp:
								return None
							if mm.startswith(sp + '.'):
								out.add(source.mangle(m.qualname.rsplit('.', 1)[0], mm[len(sp) + 1:]))
					else:
						if depth > 3:
							return None
						sub = FnCtx(fn.eng, m, None, fn.prop)
						sub.dyn = fn.dyn
						sp = m.node.args.args[0].arg if m.node.args.args else 'self'
						r = modified_fields(sub, m.node.body, sp, depth + 1)
						if r is None:
							return None
						out |= r
				else:
					f = field_of(recv)
					if f and n.func.attr in ('append', 'pop', 'extend', 'insert', 'clear', 'update', 'remove'):
						out.add(source.mangle(fn.cname, f))
	return out


def havoc(eng: Engine, st: State, names: set[str], fn: FnCtx | None = None, body: list[ast.stmt] | None = None) -> None:
	for v in names:
		cur = st.env.get(v)
		if cur is not None and cur.ty is not None and cur.term is not None:
			if isinstance(cur.ty, TRec) and fn is not None and body is not None:
				flds = modified_fields(fn, body, v)
				if flds is not None:
					terms = [z3.Const(fresh_name(f'{v}_{f}'), cur.ty.fty(f).sort()) if f in flds else cur.ty.get(cur.term, f) for f in cur.ty.fnames()]
					st.env[v] = Val(cur.ty, cur.ty.mk(*terms))
					continue
			st.env[v] = eng.fresh(cur.ty, v)


def exec_while(eng: Engine, fn: FnCtx, s: ast.While, st: State) -> Iterator[Outcome]:
	spec = loop_spec(fn, s)
	if spec is None:
		raise EngineError(f'loop without invariant at {fn.label}:{s.lineno} (ordinal {fn.loop_ord.get(id(s))})')
	yield from cut_loop(eng, fn, s.lineno, spec, st, s.body, s.orelse,
		cond=lambda ev: ev.truth(s.test), pre_body=None, post_body=None)


def cut_loop(eng: Engine, fn: FnCtx, lineno: int, spec: Loop, st: State, body: list[ast.stmt], orelse: list[ast.stmt],
	cond: Callable[[Ev], Any], pre_body: Callable[[Ev], None] | None, post_body: Callable[[Ev], None] | None, extra_mods: set[str] | None = None, aliases: dict[str, str] | None = None) -> Iterator[Outcome]:
	for c, t in clause_terms(eng, fn, st, spec.invariant):
		eng.oblige(fn, 'inv-init', st, t, c, lineno)
	mods = assigned_vars(body, lambda call: mutating_call(fn, call)) | (extra_mods or set())
	st2 = st.copy()
	havoc(eng, st2, mods, fn, body)
	for al, srcname in (aliases or {}).items():
		if srcname in st2.env:
			st2.env[al] = st2.env[srcname]
	for c, t in clause_terms(eng, fn, st2, spec.invariant):
		st2.assume(t)
	run_hints(eng, fn, st2, spec.hints_head)
	for kind, res, st3 in explore(eng, fn, st2, cond, lineno):
		if kind == 'raise':
			yield ('raise', res, st3)
			continue
		c = simp(res)
		# ---- iteration
		sb = st3.copy()
		sb.assume(c)
		if not z3.is_false(c) and feasible(sb):
			eng.oblige(fn, 'cover:loop-body', sb, None, 'invariant and guard satisfiable', lineno, expect='sat')
			v0 = None
			if spec.decreases is not None:
				v0 = Ev(eng, fn, sb, Oracle([]), 'spec').eval(ast.parse(spec.decreases, mode='eval').body).term
			starts: list[Outcome] = [('ok', None, sb)]
			if pre_body is not None:
				starts = list(explore(eng, fn, sb, pre_body, lineno))
			for k0, r0, s0 in starts:
				if k0 == 'raise':
					yield ('raise', r0, s0)
					continue
				for kind2, payload, se in exec_block(eng, fn, body, s0):
					if kind2 in ('normal', 'continue'):
						ends: list[Outcome] = [('ok', None, se)]
						if post_body is not None:
							ends = list(explore(eng, fn, se, post_body, lineno))
						for k1, r1, s1 in ends:
							if k1 == 'raise':
								yield ('raise', r1, s1)
								continue
							run_hints(eng, fn, s1, spec.hints_end, None, sb)
							for cl, t in clause_terms(eng, fn, s1, spec.invariant, None, sb):
								eng.oblige(fn, 'inv-pres', s1, t, cl, lineno)
							if v0 is not None:
								v1 = Ev(eng, fn, s1, Oracle([]), 'spec').eval(ast.parse(spec.decreases, mode='eval').body).term  # type: ignore[arg-type]
								eng.oblige(fn, 'variant', s1, z3.And(v0 >= 0, v1 < v0), spec.decreases or '', lineno)
					elif kind2 == 'break':
						if spec.hints_break:
							run_hints(eng, fn, se, spec.hints_break, None, sb)
						yield ('normal', None, se)
					else:
						yield (kind2, payload, se)
		# ---- exit
		sf = st3.copy()
		sf.assume(z3.Not(c))
		if not z3.is_true(c) and feasible(sf):
			run_hints(eng, fn, sf, spec.hints_exit)
			yield from exec_block(eng, fn, orelse, sf)


def mutating_call(fn: FnCtx, call: ast.Call) -> bool:
	"""Does `x.m(...)` possibly mutate x?  True for repo methods whose contract has a non-empty modifies, or that are inlined."""
	if not isinstance(call.func, ast.Attribute):
		return False
	name = call.func.attr
	for (f, q), c in REG.contracts.items():
		if q.split('.')[-1] == name and c.modifies:
			return True
	r = call.func.value
	if isinstance(r, ast.Name) and r.id == 'self' and fn.src is not None and fn.cname is not None:
		m = source.find_method(fn.src.file, fn.cname, name)
		if m is not None and REG.contracts.get((m.file, m.qualname)) is None:
			# inlined method: mutates if its body assigns to self.*
			return 'self' in assigned_vars(m.node.body)
	return False


def exec_for(eng: Engine, fn: FnCtx, s: ast.For, st: State) -> Iterator[Outcome]:
	spec = loop_spec(fn, s)
	ordk = fn.loop_ord.get(id(s))
	idx = f'_i{ordk}'
	# range loops: the loop variable itself is the index
	it = s.iter
	for kind, seqv, st1 in explore(eng, fn, st, lambda ev: iter_setup(ev, it), s.lineno):
		if kind == 'raise':
			yield ('raise', seqv, st1)
			continue
		mode, payload = seqv
		if mode == 'items' and spec is None:
			# statically known shape: unroll
			yield from unroll(eng, fn, s, st1, payload, 0)
			continue
		if spec is None:
			raise EngineError(f'for loop without invariant at {fn.label}:{s.lineno} (ordinal {ordk})')
		if mode == 'range':
			lo, hi = payload
			st1.env[idx] = Val(INT, lo)
			st1.env['_i'] = st1.env[idx]
			st1.env[f'_hi{ordk}'] = Val(INT, hi)
			def cond(ev: Ev, hi=hi) -> Any:
				return ev.st.env[idx].term < hi
			def pre(ev: Ev) -> None:
				assign_target(ev, s.target, ev.st.env[idx])
				ev.st.env['_i'] = ev.st.env[idx]
		else:
			seq: Val = payload if mode in ('seq', 'enum') else payload_to_seq(payload)
			st1.env[idx] = Val(INT, z3.IntVal(0))
			st1.env['_i'] = st1.env[idx]
			st1.env[f'_seq{ordk}'] = seq
			st1.env['_seq'] = seq
			def cond(ev: Ev, seq=seq) -> Any:  # type: ignore[misc]
				return ev.st.env[idx].term < z3.Length(seq.term)
			def pre(ev: Ev, seq=seq, mode=mode) -> None:  # type: ignore[misc]
				i = ev.st.env[idx].term
				assert isinstance(seq.ty, TList)
				if mode == 'enum':
					tt = TTuple((INT, seq.ty.elem))
					assign_target(ev, s.target, Val(tt, tt.mk(i, seq.term[i])))
				else:
					assign_target(ev, s.target, Val(seq.ty.elem, seq.term[i]))
				ev.st.env['_i'] = ev.st.env[idx]
		def post(ev: Ev) -> None:
			ev.st.env[idx] = Val(INT, ev.st.env[idx].term + 1)
			ev.st.env['_i'] = ev.st.env[idx]
		tnames = {t.id for t in ast.walk(s.target) if isinstance(t, ast.Name)}
		# make the loop variable exist before the havoc so that it is havocked with a type
		yield from cut_loop(eng, fn, s.lineno, spec, st1, s.body, s.orelse, cond, pre, post, extra_mods={idx} | tnames, aliases={'_i': idx})


def payload_to_seq(items: list[tuple[Any, Val]]) -> Val:
	if any(c is not None for c, _ in items):
		raise EngineError('conditional items in annotated for loop')
	ety = items[0][1].ty
	lty = TList(ety)  # type: ignore[arg-type]
	return Val(lty, seq_of([v.term for _, v in items], lty), items=items)


def iter_setup(ev: Ev, it: ast.expr) -> tuple[str, Any]:
	# an iterable of an opaque type is read through a declared rewrite of the whole iterable expression
	c = ev.fn.contract
	if c is not None and c.rewrites and ast.unparse(it) in c.rewrites and not isinstance(it, (ast.Subscript, ast.Attribute, ast.Compare, ast.BoolOp, ast.ListComp, ast.Dict)):
		txt = ast.unparse(it)
		ev.eng.used_rewrites.add(f'{ev.fn.label}: for ... in {txt}  ~>  {c.rewrites[txt]}')
		it = ast.parse(c.rewrites[txt], mode='eval').body
	if isinstance(it, ast.Call) and isinstance(it.func, ast.Name) and it.func.id == 'range':
		args = [ev.eval(a) for a in it.args]
		if all(a.is_conc() for a in args):
			return 'items', [(None, py_to_val(k)) for k in range(*[a.conc for a in args])]
		if len(args) == 1:
			return 'range', (z3.IntVal(0), args[0].term)
		if len(args) == 2:
			return 'range', (args[0].term, args[1].term)
		raise EngineError('range with step')
	if isinstance(it, ast.Call) and isinstance(it.func, ast.Name) and it.func.id == 'enumerate' and len(it.args) == 1:
		inner = ev.iter_values(it.args[0])
		if inner.items is None:
			return 'enum', inner
	v = ev.iter_values(it)
	if v.items is not None:
		return 'items', v.items
	return 'seq', v


def unroll(eng: Engine, fn: FnCtx, s: ast.For, st: State, items: list[tuple[Any, Val]], k: int) -> Iterator[Outcome]:
	if k >= len(items):
		yield from exec_block(eng, fn, s.orelse, st)
		return
	cond, item = items[k]
	branches: list[tuple[bool, State]] = []
	if cond is None:
		branches.append((True, st))
	else:
		a = st.copy()
		a.assume(cond)
		if feasible(a):
			branches.append((True, a))
		b = st.copy()
		b.assume(z3.Not(cond))
		if feasible(b):
			branches.append((False, b))
	for present, sx in branches:
		if not present:
			yield from unroll(eng, fn, s, sx, items, k + 1)
			continue
		for kind, res, s1 in explore(eng, fn, sx, lambda ev: assign_target(ev, s.target, item), s.lineno):
			if kind == 'raise':
				yield ('raise', res, s1)
				continue
			for kind2, payload, s2 in exec_block(eng, fn, s.body, s1):
				if kind2 in ('normal', 'continue'):
					yield from unroll(eng, fn, s, s2, items, k + 1)
				elif kind2 == 'break':
					yield ('normal', None, s2)
				else:
					yield (kind2, payload, s2)


# ------------------------------------------------------------------------------------------- try
def exec_try(eng: Engine, fn: FnCtx, s: ast.Try, st: State) -> Iterator[Outcome]:
	def with_finally(outs: Iterator[Outcome]) -> Iterator[Outcome]:
		for kind, payload, sx in outs:
			if not s.finalbody:
				yield (kind, payload, sx)
				continue
			for k2, p2, s2 in exec_block(eng, fn, s.finalbody, sx):
				if k2 == 'normal':
					yield (kind, payload, s2)
				else:
					yield (k2, p2, s2)

	def inner() -> Iterator[Outcome]:
		for kind, payload, sx in exec_block(eng, fn, s.body, st):
			if kind == 'normal':
				yield from exec_block(eng, fn, s.orelse, sx)
				continue
			if kind != 'raise':
				yield (kind, payload, sx)
				continue
			exc: ExcVal = payload
			handled = False
			for h in s.handlers:
				names = handler_names(eng, fn, sx, h)
				full = any(eng.exc_subclass(exc.cname, nm) for nm in names) if names else True
				# an external that "may raise anything" stands for every subclass: a narrower handler catches only part of it
				partial = (not full) and getattr(exc, 'any_subclass', False) and any(eng.exc_subclass(nm, exc.cname) or nm not in BUILTIN_NAMES and not nm.startswith('Errors.') for nm in names)
				if full or partial:
					sh = sx.copy()
					if partial and names:
						# what this handler sees of a "may raise anything" external is an instance of the handler's own class
						exc_h = ExcVal(None, cname=names[0], args=list(exc.args))
					else:
						exc_h = exc
					if h.name:
						sh.env[h.name] = exc_h
					prev = fn.__dict__.get('handling')
					fn.__dict__['handling'] = exc_h
					try:
						for o in exec_block(eng, fn, h.body, sh):
							yield o
					finally:
						fn.__dict__['handling'] = prev
					if full:
						handled = True
						break
			if not handled:
				yield (kind, payload, sx)

	yield from with_finally(inner())


def handler_names(eng: Engine, fn: FnCtx, st: State, h: ast.ExceptHandler) -> list[str]:
	if h.type is None:
		return []
	ev = Ev(eng, fn, st, Oracle([]), 'spec')
	ts = h.type.elts if isinstance(h.type, ast.Tuple) else [h.type]
	out = []
	for t in ts:
		try:
			v = ev.eval(t)
			out.append(v.cname if isinstance(v, ClassRef) else ast.unparse(t))
		except EngineError:
			out.append(ast.unparse(t))
	return out


# ------------------------------------------------------------------------------------------- functions
def run_function_body(eng: Engine, fn: FnCtx, st: State) -> Iterator[Outcome]:
	assert fn.src is not None
	try:
		fn.ret_ty = None
		if fn.contract and 'return' in fn.contract.types:
			fn.ret_ty = eng.tenv.parse(fn.contract.types['return'])
		elif fn.src.node.returns is not None:
			if ast.unparse(fn.src.node.returns) == 'Self':
				sp = fn.src.node.args.args[0].arg if fn.src.node.args.args else None
				fn.ret_ty = st.env[sp].ty if sp and sp in st.env else None
			else:
				fn.ret_ty = eng.ty(fn.src.node.returns, fn)
	except TypeError:
		fn.ret_ty = None
	for kind, payload, sx in exec_block(eng, fn, fn.src.node.body, st):
		if kind == 'normal':
			yield ('return', py_to_val(None), sx)
		elif kind in ('return', 'raise'):
			yield (kind, payload, sx)
		else:
			raise EngineError(f'{kind} outside loop in {fn.label}')
