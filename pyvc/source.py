"""Mechanical extraction of the functions under contract from /repo's current working tree.

Nothing is copied by hand: every run re-reads the source file, parses it with CPython's own `ast` and looks the
function up by qualified name.  What is dropped is fixed (see DROPPED) and reported in the evidence.
"""
from __future__ import annotations

import ast
import hashlib
import os
from dataclasses import dataclass, field

REPO = os.environ.get('PYVC_REPO', '/repo')

DROPPED = [
	'docstrings (expression statements that are string constants)',
	'annotation-only statements (`x: T` without value)',
	'typing.cast(T, x) is treated as x',
	'decorators classmethod/staticmethod/property/override/implements/injectable/duck_typed/deprecated/Meta.embed are treated as identity on the function body',
]

IDENTITY_DECORATORS = {'classmethod', 'staticmethod', 'property', 'override', 'implements', 'injectable', 'duck_typed', 'deprecated', 'abstractmethod'}


@dataclass
class FuncSrc:
	file: str
	qualname: str
	node: ast.FunctionDef
	cls: ast.ClassDef | None
	text: str
	sha1: str
	lineno: int
	end_lineno: int
	kind: str  # function | method | classmethod | staticmethod | property


@dataclass
class ModuleSrc:
	file: str
	tree: ast.Module
	text: str
	funcs: dict[str, FuncSrc] = field(default_factory=dict)
	classes: dict[str, ast.ClassDef] = field(default_factory=dict)
	imports: dict[str, str] = field(default_factory=dict)  # local name -> dotted target


_cache: dict[str, ModuleSrc] = {}


def reset_cache() -> None:
	_cache.clear()


def load(file: str) -> ModuleSrc:
	"""file: path relative to the repo root."""
	if file in _cache:
		return _cache[file]
	path = os.path.join(REPO, file)
	with open(path, encoding='utf-8') as f:
		text = f.read()
	tree = ast.parse(text, filename=path)
	mod = ModuleSrc(file, tree, text)
	lines = text.split('\n')

	def visit(body: list[ast.stmt], prefix: str, cls: ast.ClassDef | None) -> None:
		for st in body:
			if isinstance(st, (ast.FunctionDef, ast.AsyncFunctionDef)):
				q = f'{prefix}{st.name}'
				seg = '\n'.join(lines[st.lineno - 1:st.end_lineno])
				kind = 'method' if cls is not None else 'function'
				for d in st.decorator_list:
					dn = ast.unparse(d.func if isinstance(d, ast.Call) else d)
					if dn in ('classmethod', 'staticmethod', 'property'):
						kind = dn
				if q not in mod.funcs:  # property setters etc.: keep the first (getter)
					mod.funcs[q] = FuncSrc(file, q, st, cls, seg, hashlib.sha1(seg.encode()).hexdigest(), st.lineno, st.end_lineno or st.lineno, kind)
				visit_nested(st, q)
			elif isinstance(st, ast.ClassDef):
				q = f'{prefix}{st.name}'
				mod.classes[q] = st
				visit(st.body, q + '.', st)

	def visit_nested(fn: ast.FunctionDef, q: str) -> None:
		for st in fn.body:
			if isinstance(st, ast.FunctionDef):
				nq = f'{q}.<locals>.{st.name}'
				seg = '\n'.join(lines[st.lineno - 1:st.end_lineno])
				mod.funcs[nq] = FuncSrc(file, nq, st, None, seg, hashlib.sha1(seg.encode()).hexdigest(), st.lineno, st.end_lineno or st.lineno, 'function')

	visit(tree.body, '', None)
	for st in tree.body:
		if isinstance(st, ast.ImportFrom) and st.module:
			for a in st.names:
				mod.imports[a.asname or a.name] = f'{st.module}.{a.name}'
		elif isinstance(st, ast.Import):
			for a in st.names:
				mod.imports[a.asname or a.name] = a.name
	_cache[file] = mod
	return mod


def module_file(dotted: str) -> str | None:
	"""rogw.tranp.x.y -> rogw/tranp/x/y.py if it exists in the repo."""
	p = dotted.replace('.', '/') + '.py'
	if os.path.exists(os.path.join(REPO, p)):
		return p
	p2 = dotted.replace('.', '/') + '/__init__.py'
	if os.path.exists(os.path.join(REPO, p2)):
		return p2
	return None


def resolve_import(mod: ModuleSrc, name: str) -> tuple[str, str] | None:
	"""Local name imported into `mod` -> (file, qualname) inside the repo, if it is a repo class/function."""
	target = mod.imports.get(name)
	if not target:
		return None
	modname, _, obj = target.rpartition('.')
	f = module_file(modname)
	if f is None:
		return None
	return f, obj


def class_bases(mod: ModuleSrc, cname: str) -> list[tuple[str, str]]:
	"""Base classes of `cname` that live in the repo: [(file, classqualname)]."""
	cls = mod.classes.get(cname)
	out: list[tuple[str, str]] = []
	if cls is None:
		return out
	for b in cls.bases:
		bn = ast.unparse(b.value if isinstance(b, ast.Subscript) else b)
		if bn in mod.classes:
			out.append((mod.file, bn))
		else:
			r = resolve_import(mod, bn.split('.')[0])
			if r:
				out.append((r[0], bn if '.' not in bn else bn))
	return out


def find_method(file: str, cname: str, mname: str) -> FuncSrc | None:
	"""Look a method up through the repo-local MRO (depth first, left to right)."""
	mod = load(file)
	q = f'{cname}.{mname}'
	if q in mod.funcs:
		return mod.funcs[q]
	for bf, bc in class_bases(mod, cname):
		r = find_method(bf, bc, mname)
		if r:
			return r
	return None


def mangle(cname: str | None, attr: str) -> str:
	if cname and attr.startswith('__') and not attr.endswith('__'):
		return f'_{cname.split(".")[-1].lstrip("_")}{attr}'
	return attr


def exception_table() -> dict[str, list[str]]:
	"""Errors.* hierarchy read from rogw/tranp/errors.py: name -> list of base names (repo-local spelling)."""
	mod = load('rogw/tranp/errors.py')
	tbl: dict[str, list[str]] = {}
	for q, c in mod.classes.items():
		if q.startswith('Errors.'):
			bases = []
			for b in c.bases:
				bn = ast.unparse(b)
				bases.append(f'Errors.{bn}' if f'Errors.{bn}' in mod.classes else bn)
			tbl[q] = bases
	return tbl
