"""Sidecar contract language.  Contract files under /verif/contracts/ call these functions; nothing in /repo is edited.

A contract is keyed by (file, qualified name).  Clause texts are ordinary Python expressions over the parameters,
`result`, `old(e)`, spec functions (specs/*.py) and a few logical helpers (`implies`, `all(... for ...)`,
`any(... for ...)`).  The same text is translated to SMT by the engine and evaluated natively on replay.
"""
from __future__ import annotations

import ast
import inspect
import textwrap
from dataclasses import dataclass, field
from typing import Any, Callable


@dataclass
class Loop:
	invariant: list[str] = field(default_factory=list)
	decreases: str | None = None
	hints_head: list[str] = field(default_factory=list)  # lemma calls executed at the loop head (after assuming the invariant)
	hints_end: list[str] = field(default_factory=list)   # ... at the end of the body, before re-establishing the invariant
	hints_exit: list[str] = field(default_factory=list)  # ... on loop exit
	hints_break: list[str] = field(default_factory=list)  # ... at a `break` inside the body (prev() is the loop-head state)


@dataclass
class Contract:
	file: str
	qualname: str
	props: list[str]
	requires: list[str] = field(default_factory=list)
	ensures: list[str] = field(default_factory=list)
	raises: dict[str, str | None] = field(default_factory=dict)  # class -> exact condition over the pre-state, or None = may raise
	modifies: list[str] = field(default_factory=list)
	ghost_args: dict[str, str] = field(default_factory=dict)  # '<callee qualname>.<ghost>' -> expression over this function's variables: the ghost argument passed at calls of that callee
	exit_asserts: list[str] = field(default_factory=list)  # facts over the function's locals at every normal return (checked; not visible to callers)
	loops: dict[int, Loop] = field(default_factory=dict)
	types: dict[str, str] = field(default_factory=dict)  # parameter / local / return types where annotations are missing or abstract
	instantiate: dict[str, list[Any]] = field(default_factory=dict)
	rewrites: dict[str, str] = field(default_factory=dict)  # unparse(call) -> contract expression (an assumed reading of an external call)
	rewrite_patterns: dict[str, str] = field(default_factory=dict)  # regex over unparse(call) -> replacement template (\\1 ...): rewrites that must survive edits of an argument
	hook_only: bool = False  # the body is outside the VC subset: only the derived obligations of post_hook are generated
	post_hook: Any = None  # callable(engine, fnctx): adds derived obligations (e.g. memo-key injectivity) for this function
	stmt_rewrites: dict[str, str] = field(default_factory=dict)  # unparse(statement) -> replacement statements (an assumed reading of a statement outside the subset; always reported)
	hints_entry: list[str] = field(default_factory=list)
	hints_exit: list[str] = field(default_factory=list)
	top: list[str] = field(default_factory=list)  # which ensures clauses are taken from the property statement
	inline_only: bool = False  # only loop annotations; callers inline the body
	inline_calls: bool = False  # verified standalone against this contract, but call sites inline the body (e.g. annotations that lie about argument types)
	canary: str | None = None  # a clause that must be refuted (negation of the main post); default: derived
	note: str = ''
	known: list[str] = field(default_factory=list)  # ids in known_findings.json whose witness predicate is excluded
	replay: str | None = None  # name of a native replay adapter (contracts module attribute)
	ghost_params: dict[str, str] = field(default_factory=dict)  # extra universally quantified ghost inputs: name -> type
	assume_pure_calls: list[str] = field(default_factory=list)
	max_paths: int = 4000
	consts: dict[str, Any] = field(default_factory=dict)  # named constants usable in clause text
	dispatch: str | None = None  # dynamic class of the receiver (virtual dispatch of self.m()); key becomes qualname@dispatch
	raise_unchanged: list[str] = field(default_factory=list)  # exception classes on whose raise the receiver is left unchanged (an obligation of the function, a fact for its callers)
	witness: str | None = None  # module-level function () -> (bool, str): demonstrates a failed obligation of this contract on the real system (pipeline replay)
	native_requires: list[str] = field(default_factory=list)  # preconditions evaluated only natively (bounded twin / replay)
	bounded_ensures: list[str] = field(default_factory=list)  # clauses checked only by the bounded twin (never counted as proved)
	lets: dict[str, str] = field(default_factory=dict)  # named abbreviations over the pre-state, usable in every clause

	@property
	def key(self) -> tuple[str, str]:
		return self.file, self.qualname + (f'@{self.dispatch}' if self.dispatch else '')


@dataclass
class External:
	"""An external (trusted) function: uninterpreted symbol + assumed axioms.  Always listed under assumptions."""
	name: str
	params: list[tuple[str, str]]
	ret: str
	axioms: list[Any] = field(default_factory=list)  # closed clause text, or ({var: type}, text) universally quantified
	raises: dict[str, str | None] = field(default_factory=dict)
	note: str = ''


@dataclass
class Spec:
	name: str
	fn: Callable[..., Any]
	node: ast.FunctionDef
	recursive: bool
	decreases: str | None = None
	opaque: bool = False


@dataclass
class Lemma:
	name: str
	fn: Callable[..., Any]
	node: ast.FunctionDef
	requires: list[str]
	ensures: list[str]
	decreases: str | None
	props: list[str]


@dataclass
class Record:
	name: str
	fields: dict[str, str]
	source: tuple[str, str] | None = None  # (file, class) whose __init__ must assign exactly these fields


class Registry:
	def __init__(self) -> None:
		self.contracts: dict[tuple[str, str], Contract] = {}
		self.externals: dict[str, External] = {}
		self.specs: dict[str, Spec] = {}
		self.lemmas: dict[str, Lemma] = {}
		self.records: dict[str, Record] = {}
		self.aliases: dict[str, str] = {}
		self.enums: dict[str, list[str]] = {}
		self.refs: set[str] = set()
		self.unions: dict[str, list[str]] = {}
		self.replays: dict[str, Callable[..., Any]] = {}
		self.consts: dict[str, Any] = {}
		self.closed: list[Any] = []  # closed obligations decided by evaluation
		self.bounded: list[Any] = []


REG = Registry()


def contract(file: str, qualname: str, props: str | list[str], **kw: Any) -> Contract:
	loops = {k: (v if isinstance(v, Loop) else Loop(**v)) for k, v in kw.pop('loops', {}).items()}
	c = Contract(file, qualname, [props] if isinstance(props, str) else list(props), loops=loops, **kw)
	if c.key in REG.contracts:
		raise ValueError(f'duplicate contract {c.key}')
	REG.contracts[c.key] = c
	return c


def external(name: str, params: list[tuple[str, str]], ret: str, axioms: list[Any] | None = None, raises: dict[str, str | None] | None = None, note: str = '') -> External:
	e = External(name, params, ret, axioms or [], raises or {}, note)
	REG.externals[name] = e
	return e


def _fn_node(fn: Callable[..., Any]) -> ast.FunctionDef:
	src = textwrap.dedent(inspect.getsource(fn))
	tree = ast.parse(src)
	node = tree.body[0]
	assert isinstance(node, ast.FunctionDef)
	return node


def spec(fn: Callable[..., Any] | None = None, *, decreases: str | None = None, opaque: bool = False):
	"""Register a pure spec function (if/return/let only).  Recursive ones need `decreases`."""
	def reg(f: Callable[..., Any]):
		node = _fn_node(f)
		rec = any(isinstance(n, ast.Call) and isinstance(n.func, ast.Name) and n.func.id == f.__name__ for n in ast.walk(node))
		REG.specs[f.__name__] = Spec(f.__name__, f, node, rec, decreases, opaque)
		return f
	return reg(fn) if fn is not None else reg


def lemma(props: str | list[str], requires: list[str] | None = None, ensures: list[str] | None = None, decreases: str | None = None):
	def reg(f: Callable[..., Any]):
		REG.lemmas[f.__name__] = Lemma(f.__name__, f, _fn_node(f), requires or [], ensures or [], decreases, [props] if isinstance(props, str) else list(props))
		return f
	return reg


def record(name: str, fields: dict[str, str], source: tuple[str, str] | None = None) -> None:
	REG.records[name] = Record(name, fields, source)


def alias(name: str, target: str) -> None:
	REG.aliases[name] = target


def enum(name: str, members: list[str]) -> None:
	REG.enums[name] = members


def ref(name: str) -> None:
	REG.refs.add(name)


def union(name: str, alts: list[str]) -> None:
	REG.unions[name] = alts


def native(fn: Callable[..., Any]) -> Callable[..., Any]:
	"""A helper usable only in natively evaluated clauses (bounded_ensures, twins)."""
	REG.replays[fn.__name__] = fn
	return fn


def const(name: str, value: Any) -> Any:
	REG.consts[name] = value
	return value


def implies(a: bool, b: bool) -> bool:
	return (not a) or b


def init(seq):
	"""All but the last element (spec helper; same encoding as list.pop())."""
	return seq[:len(seq) - 1] if len(seq) > 0 else seq[:0]


def last(seq):
	return seq[len(seq) - 1]


def fzero(x):
	"""Float zero test (SMT: the uninterpreted predicate that guards float division)."""
	return x == 0
