"""Symbolic values, state, and Python <-> SMT conversions."""
from __future__ import annotations

from dataclasses import dataclass, field
from typing import Any

import z3

from .ty import (BOOL, FLOAT, INT, NONE, STR, TBool, TDict, TEnum, TFloat, TInt, TList, TNone, TOpt, TRec, TRef, TStr,
	TTuple, TUnion, Ty)


class NoConc:
	def __repr__(self): return '<symbolic>'


NOCONC = NoConc()


class EngineError(Exception):
	"""The function left the supported subset or the machinery failed: never a verdict."""


@dataclass
class Val:
	ty: Ty | None
	term: Any = None
	conc: Any = NOCONC
	# statically known list shape: [(cond|None, Val)], cond guards presence of the element
	items: list[tuple[Any, 'Val']] | None = None

	def is_conc(self) -> bool:
		return self.conc is not NOCONC


@dataclass
class ClassRef(Val):
	cname: str = ''
	module: str = ''


@dataclass
class FuncRef(Val):
	qualname: str = ''
	module: str = ''
	bound_self: Val | None = None
	self_name: str | None = None  # variable name the receiver lives in (for write-back of mutations)


@dataclass
class ModuleRef(Val):
	module: str = ''


@dataclass
class SpecRef(Val):
	name: str = ''


@dataclass
class ExcVal(Val):
	cname: str = ''
	args: list[Val] = field(default_factory=list)


def py_to_val(v: Any, ty: Ty | None = None) -> Val:
	"""Concrete Python value -> Val (with the concrete value kept for folding)."""
	if ty is not None and isinstance(ty, TOpt):
		if v is None:
			return Val(ty, ty.none(), None)
		inner = py_to_val(v, ty.inner)
		return Val(ty, ty.some(inner.term), v)
	if ty is not None and isinstance(ty, TUnion):
		for alt in ty.alts:
			if _py_matches(v, alt):
				inner = py_to_val(v, alt)
				return Val(ty, ty.inject(alt, inner.term), v)
		raise EngineError(f'value {v!r} does not fit {ty}')
	if v is None:
		return Val(NONE, NONE.sort().constructor(0)(), None)
	if isinstance(v, bool):
		return Val(BOOL, z3.BoolVal(v), v)
	if isinstance(v, int):
		return Val(INT, z3.IntVal(v), v)
	if isinstance(v, str):
		return Val(STR, z3.StringVal(v), v)
	if isinstance(v, (list, tuple)) and (ty is None or isinstance(ty, TList)) and not (isinstance(v, tuple) and ty is None):
		if ty is None:
			if not v:
				raise EngineError('cannot type empty list literal without annotation')
			ety = py_to_val(v[0]).ty
		else:
			ety = ty.elem
		elems = [py_to_val(x, ety) for x in v]
		lty = TList(ety)
		return Val(lty, seq_of([e.term for e in elems], lty), list(v), [(None, e) for e in elems])
	if isinstance(v, tuple):
		if ty is None:
			elems = [py_to_val(x) for x in v]
			ty = TTuple(tuple(e.ty for e in elems))
		else:
			assert isinstance(ty, TTuple)
			elems = [py_to_val(x, t) for x, t in zip(v, ty.items)]
		return Val(ty, ty.mk(*[e.term for e in elems]), tuple(v))
	if isinstance(v, dict) and isinstance(ty, TDict):
		d = ty.empty()
		dom, vals = ty.dom(d), ty.vals(d)
		for k, x in v.items():
			kt = py_to_val(k, ty.key).term
			dom = z3.Store(dom, kt, z3.BoolVal(True))
			vals = z3.Store(vals, kt, py_to_val(x, ty.val).term)
		return Val(ty, ty.mk(dom, vals, z3.IntVal(len(v))), dict(v))
	raise EngineError(f'cannot lift python value {v!r} to {ty}')


def _py_matches(v: Any, t: Ty) -> bool:
	if isinstance(t, TInt):
		return isinstance(v, int) and not isinstance(v, bool)
	if isinstance(t, TBool):
		return isinstance(v, bool)
	if isinstance(t, TStr):
		return isinstance(v, str)
	if isinstance(t, TNone):
		return v is None
	if isinstance(t, TFloat):
		return isinstance(v, float)
	if isinstance(t, TList):
		return isinstance(v, list)
	return False


def seq_of(terms: list[Any], lty: TList):
	if not terms:
		return z3.Empty(lty.sort())
	units = [z3.Unit(t) for t in terms]
	return units[0] if len(units) == 1 else z3.Concat(*units)


def model_to_py(v: Any, ty: Ty) -> Any:
	"""Plain data produced by smt.z3_to_py -> Python value of type ty (best effort; raises EngineError)."""
	if isinstance(ty, (TInt, TBool, TStr)):
		if isinstance(v, tuple):
			raise EngineError(f'no concrete value for {ty}: {v}')
		return v
	if isinstance(ty, TList):
		if not isinstance(v, list):
			raise EngineError(f'no concrete list: {v}')
		return [model_to_py(x, ty.elem) for x in v]
	if isinstance(ty, TTuple):
		_, _, args = v
		return tuple(model_to_py(a, t) for a, t in zip(args, ty.items))
	if isinstance(ty, TOpt):
		_, cname, args = v
		return None if cname.startswith('none_') else model_to_py(args[0], ty.inner)
	if isinstance(ty, TUnion):
		_, cname, args = v
		for alt in ty.alts:
			if cname == f'{ty.uname}_{"".join(c if c.isalnum() else "_" for c in str(alt))}':
				return model_to_py(args[0], alt)
		raise EngineError(f'unknown union ctor {cname}')
	if isinstance(ty, TRec):
		_, _, args = v
		return {f: model_to_py(a, t) for a, (f, t) in zip(args, ty.fields)}
	if isinstance(ty, TEnum):
		_, cname, _ = v
		return ('enum', ty.ename, cname.split('_')[-1])
	if isinstance(ty, TNone):
		return None
	raise EngineError(f'cannot concretise {ty}: {v}')


class State:
	def __init__(self, env: dict[str, Val] | None = None, pc: list[Any] | None = None):
		self.env: dict[str, Val] = env or {}
		self.pc: list[Any] = pc or []

	def copy(self) -> 'State':
		return State(dict(self.env), list(self.pc))

	def assume(self, c: Any) -> None:
		if z3.is_true(c):
			return
		self.pc.append(c)
