"""Generate and discharge the obligations of a set of contracts / lemmas."""
from __future__ import annotations

import re
import time
import traceback
from dataclasses import dataclass, field
from typing import Any

from . import source
from .api import REG, Contract, Lemma
from .engine import Engine, Obligation
from .smt import Result, discharge_many, to_smt2
from .values import EngineError
from .verify import check_record_sources, verify_function, verify_lemma


@dataclass
class ObResult:
	ob: Obligation
	res: Result
	ok: bool
	text: str = ''


@dataclass
class RunReport:
	prop: str
	results: list[ObResult] = field(default_factory=list)
	engine_errors: list[str] = field(default_factory=list)
	functions: list[dict[str, Any]] = field(default_factory=list)
	assumptions: list[str] = field(default_factory=list)
	gen_seconds: float = 0.0
	solve_seconds: float = 0.0
	inlined: list[str] = field(default_factory=list)


def generate(prop: str, contracts: list[Contract], lemmas: list[Lemma]) -> tuple[Engine, list[str]]:
	eng = Engine()
	errors: list[str] = []
	for p in check_record_sources(eng):
		errors.append(f'record-shape: {p}')
	for lm in lemmas:
		try:
			verify_lemma(eng, lm, prop)
		except EngineError as e:
			errors.append(f'lemma {lm.name}: {e}')
		except Exception as e:
			errors.append(f'lemma {lm.name}: internal {type(e).__name__}: {e}\n{traceback.format_exc()}')
	for c in contracts:
		if c.inline_only:
			continue
		try:
			verify_function(eng, c, prop)
		except EngineError as e:
			errors.append(f'{c.file}:{c.qualname}: {e}')
		except Exception as e:
			errors.append(f'{c.file}:{c.qualname}: internal {type(e).__name__}: {e}\n{traceback.format_exc()}')
	return eng, errors


_EXT = re.compile(r'ext_([A-Za-z0-9_.]+)')
_AX_TEXT: dict[int, set[str]] = {}


def relevant_axioms(ob: Any) -> list[Any]:
	"""Axioms of the externals that occur in the obligation, closed under the externals the axioms themselves mention.
	(Unrelated quantified axioms only turn refutable queries into `unknown`.)"""
	if not ob.axioms:
		return []
	used = set(_EXT.findall(to_smt2(ob.assumptions, ob.goal)))
	chosen: list[Any] = []
	done: set[int] = set()
	changed = True
	while changed:
		changed = False
		for i, (name, ax) in enumerate(ob.axioms):
			if i in done or name not in used:
				continue
			done.add(i)
			chosen.append(ax)
			if id(ax) not in _AX_TEXT:
				_AX_TEXT[id(ax)] = set(_EXT.findall(ax.sexpr()))
			new = _AX_TEXT[id(ax)] - used
			if new:
				used |= new
				changed = True
	return chosen


def run(prop: str, contracts: list[Contract], lemmas: list[Lemma], z3_ms: int | None = None, cvc5_ms: int | None = None) -> RunReport:
	rep = RunReport(prop)
	t0 = time.time()
	eng, errors = generate(prop, contracts, lemmas)
	rep.engine_errors = errors
	rep.gen_seconds = time.time() - t0
	jobs = []
	texts = []
	for ob in eng.obligations:
		txt = to_smt2(ob.assumptions + relevant_axioms(ob), ob.goal)
		texts.append(txt)
		if ob.expect == 'sat':
			jobs.append((txt, ob.want, 1500, -1))  # covers: a quick satisfiability probe, never a proof obligation
		else:
			jobs.append((txt, ob.want, z3_ms, cvc5_ms))
	t1 = time.time()
	results = discharge_many(jobs)
	# obligations left open are retried once, one at a time, with tripled budgets: a timeout under full load must not flip a verdict
	open_idx = [i for i, (ob, res) in enumerate(zip(eng.obligations, results)) if ob.expect == 'proved' and res.verdict == 'unknown']
	for i, (ob, res) in enumerate(zip(eng.obligations, results)):
		if len(open_idx) > 4:
			break  # many open obligations are not a load artefact: do not spend minutes retrying them one by one
		if ob.expect == 'proved' and res.verdict == 'unknown':
			from .smt import discharge_text
			r2 = discharge_text(texts[i], ob.want, (z3_ms or 10000) * 2, (cvc5_ms or 20000) * 2)
			r2.seconds += res.seconds
			r2.tried = res.tried + ['retry'] + r2.tried
			results[i] = r2
	rep.solve_seconds = time.time() - t1
	for ob, res, txt in zip(eng.obligations, results, texts):
		if ob.expect == 'proved':
			ok = res.verdict == 'proved'
		elif ob.expect == 'sat':
			ok = res.verdict != 'proved'  # a cover fails only when the solver proves the premises contradictory (vacuity)
		else:
			ok = res.verdict == 'refuted'
		rep.results.append(ObResult(ob, res, ok, txt))
	for key, src in eng.functions.items():
		rep.functions.append({'function': f'{src.file}:{src.qualname}', 'lines': [src.lineno, src.end_lineno], 'sha1': src.sha1})
	rep.inlined = sorted(f'{f}:{q}' for f, q in eng.inlined)
	rep.assumptions = sorted(f'external {n}: {REG.externals[n].note or "; ".join(str(a) for a in REG.externals[n].axioms) or "uninterpreted"}' for n in eng.used_externals) + sorted(f'rewrite {r}' for r in eng.used_rewrites) + eng.notes
	return rep
