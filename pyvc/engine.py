"""pyvc: verification-condition generator for a subset of Python, driven by sidecar contracts.

Forward symbolic execution of the *real* function AST (read from /repo on every run); one SMT query per path
and obligation; loops are cut at their invariants; calls are replaced by the callee's contract (or inlined when
the callee has none and is small); exceptions are control flow; every implicit failure source (subscript,
dict lookup, pop on empty, int(str)) is a path that must either be infeasible or be allowed by `raises`.
"""
from __future__ import annotations

import ast
import builtins as _bi
import itertools
import os
from dataclasses import dataclass, field
from typing import Any, Callable, Iterator

import z3

from . import source
from .api import REG, Contract, Lemma, Loop, Spec
from .smt import quick_unsat, simp
from .ty import (BOOL, FLOAT, INT, NONE, STR, TBool, TDict, TEnum, TFloat, TInt, TList, TNone, TOpt, TRec, TRef, TStr,
	TTuple, TUnion, Ty, TypeEnv, default_term)
from .values import NOCONC, ClassRef, EngineError, ExcVal, FuncRef, ModuleRef, SpecRef, State, Val, py_to_val, seq_of


class RaiseSignal(Exception):
	def __init__(self, exc: ExcVal):
		self.exc = exc


class Infeasible(Exception):
	pass


@dataclass
class Obligation:
	name: str
	kind: str
	prop: str
	func: str
	assumptions: list[Any]
	goal: Any  # z3 Bool, or None for cover (satisfiability of assumptions)
	want: list[str]
	line: int = 0
	clause: str = ''
	expect: str = 'proved'  # proved | refuted (canary) | sat (cover)
	inputs: dict[str, Ty] = field(default_factory=dict)
	inst: dict[str, Any] = field(default_factory=dict)
	axioms: list[tuple[str, Any]] = field(default_factory=list)  # (external, axiom) known when the obligation was generated; only the relevant ones go into the query


class Oracle:
	def __init__(self, prefix: list[int]):
		self.prefix = prefix
		self.trace: list[tuple[int, int]] = []

	def choose(self, n: int) -> int:
		i = len(self.trace)
		c = self.prefix[i] if i < len(self.prefix) else 0
		self.trace.append((c, n))
		return c


_counter = itertools.count()


def fresh_name(hint: str) -> str:
	return f'{hint}!{next(_counter)}'


BUILTIN_EXC = {n for n in dir(_bi) if isinstance(getattr(_bi, n), type) and issubclass(getattr(_bi, n), BaseException)}


class Engine:
	def __init__(self) -> None:
		self.obligations: list[Obligation] = []
		self.tenv = TypeEnv()
		self._build_types()
		self.ext_funcs: dict[str, Any] = {}
		self.rec_funcs: dict[str, Any] = {}
		self.used_axioms: list[Any] = []
		self.used_externals: set[str] = set()
		self.used_rewrites: set[str] = set()
		self.exc_table = source.exception_table()
		self.extra_exc: dict[str, list[str]] = {}
		self.functions: dict[tuple[str, str], source.FuncSrc] = {}
		self.inlined: set[tuple[str, str]] = set()
		self.notes: list[str] = []
		self._axioms_done: set[str] = set()
		self.path_count = 0

	# ------------------------------------------------------------------ types
	def _build_types(self) -> None:
		al = self.tenv.aliases
		for r in REG.refs:
			al[r] = TRef(r)
		for n, ms in REG.enums.items():
			al[n] = TEnum(n, tuple(ms))
		pending_alias = dict(REG.aliases)
		pending_union = dict(REG.unions)
		pending_rec = dict(REG.records)
		for _ in range(12):
			progressed = False
			for n, t in list(pending_alias.items()):
				try:
					al[n] = self.tenv.parse(t)  # type: ignore[assignment]
					del pending_alias[n]
					progressed = True
				except TypeError:
					pass
			for n, alts in list(pending_union.items()):
				try:
					al[n] = TUnion(n.replace('.', '_'), tuple(self.tenv.parse(a) for a in alts))  # type: ignore[misc]
					del pending_union[n]
					progressed = True
				except TypeError:
					pass
			for n, rec in list(pending_rec.items()):
				try:
					al[n] = TRec(n, tuple((f, self.tenv.parse(t)) for f, t in rec.fields.items()))  # type: ignore[misc]
					del pending_rec[n]
					progressed = True
				except TypeError:
					pass
			if not progressed:
				break
		left = list(pending_alias) + list(pending_union) + list(pending_rec)
		if left:
			raise EngineError(f'unresolvable type declarations: {left}')

	def ty(self, text: str | ast.expr | None, fn: 'FnCtx | None' = None) -> Ty | None:
		if text is None:
			return None
		if fn is not None and fn.contract is not None:
			t = ast.unparse(text) if isinstance(text, ast.AST) else text
			if t in fn.contract.types:
				return self.tenv.parse(fn.contract.types[t])
		return self.tenv.parse(text)

	# ------------------------------------------------------------------ fresh values
	def fresh(self, ty: Ty, hint: str = 'v') -> Val:
		return Val(ty, z3.Const(fresh_name(hint), ty.sort()))

	# ------------------------------------------------------------------ exceptions
	def exc_bases(self, name: str) -> list[str]:
		if name in self.exc_table:
			return self.exc_table[name]
		if name in self.extra_exc:
			return self.extra_exc[name]
		if name in BUILTIN_EXC:
			cls = getattr(_bi, name)
			return [b.__name__ for b in cls.__bases__ if b is not object]
		return ['Exception']

	def exc_subclass(self, name: str, of: str) -> bool:
		if name == of:
			return True
		if name in ('BaseException',):
			return False
		return any(self.exc_subclass(b, of) for b in self.exc_bases(name) if b != name)

	# ------------------------------------------------------------------ obligations
	def oblige(self, fn: 'FnCtx', kind: str, st: State, goal: Any, clause: str = '', line: int = 0, expect: str = 'proved') -> None:
		if goal is not None and z3.is_true(goal) and expect == 'proved':
			# trivially true goals are still counted: keep them (cheap) so counts do not depend on folding luck
			pass
		n = len(self.obligations)
		name = f'{fn.prop}/{fn.label}/{kind}#{n}'
		self.obligations.append(Obligation(name, kind, fn.prop, fn.label, list(st.pc), goal, list(fn.want), line, clause, expect, dict(fn.inputs), dict(fn.inst), list(self.used_axioms)))

	# ------------------------------------------------------------------ externals
	def ext_func(self, name: str):
		if name in self.ext_funcs:
			return self.ext_funcs[name]
		e = REG.externals[name]
		sorts = [self.tenv.parse(t).sort() for _, t in e.params] + [self.tenv.parse(e.ret).sort()]  # type: ignore[union-attr]
		f = z3.Function(f'ext_{name}', *sorts)
		self.ext_funcs[name] = f
		return f

	def use_external(self, name: str) -> None:
		self.used_externals.add(name)
		if name in self._axioms_done:
			return
		self._axioms_done.add(name)
		e = REG.externals[name]
		for ax in e.axioms:
			fnctx = FnCtx.synthetic(self, f'axiom:{name}')
			st = State()
			qs = []
			if isinstance(ax, tuple):
				vars_, ax = ax
				for vn, vt in vars_.items():
					ty = self.tenv.parse(vt)
					c = z3.Const(fresh_name(f'ax_{vn}'), ty.sort())
					st.env[vn] = Val(ty, c)
					qs.append(c)
			ev = Ev(self, fnctx, st, Oracle([]), mode='spec')
			t = ev.truth(ast.parse(ax, mode='eval').body)
			self.used_axioms.append((name, z3.ForAll(qs, t) if qs else t))


def _root_name(n: ast.expr) -> str | None:
	while isinstance(n, (ast.Attribute, ast.Subscript)):
		n = n.value
	return n.id if isinstance(n, ast.Name) else None


MUTATORS = {'append', 'pop', 'extend', 'insert', 'clear', 'update', 'remove', 'sort', 'reverse'}


def assigned_vars(body: list[ast.stmt], mutating_methods: Callable[[ast.Call], bool] | None = None) -> set[str]:
	out: set[str] = set()

	def tgt(t: ast.expr) -> None:
		if isinstance(t, ast.Name):
			out.add(t.id)
		elif isinstance(t, (ast.Tuple, ast.List)):
			for e in t.elts:
				tgt(e)
		elif isinstance(t, ast.Starred):
			tgt(t.value)
		else:
			r = _root_name(t)
			if r:
				out.add(r)

	for st in body:
		for n in ast.walk(st):
			if isinstance(n, ast.Assign):
				for t in n.targets:
					tgt(t)
			elif isinstance(n, (ast.AugAssign, ast.AnnAssign)):
				if not (isinstance(n, ast.AnnAssign) and n.value is None):
					tgt(n.target)
			elif isinstance(n, ast.For):
				tgt(n.target)
			elif isinstance(n, ast.Delete):
				for t in n.targets:
					tgt(t)
			elif isinstance(n, ast.ExceptHandler) and n.name:
				out.add(n.name)
			elif isinstance(n, ast.Call) and isinstance(n.func, ast.Attribute):
				r = _root_name(n.func.value)
				if r and (n.func.attr in MUTATORS or (mutating_methods and mutating_methods(n))):
					out.add(r)
	return out


class FnCtx:
	def __init__(self, eng: Engine, src: source.FuncSrc | None, contract: Contract | None, prop: str, depth: int = 0):
		self.eng = eng
		self.src = src
		self.contract = contract
		self.prop = prop
		self.depth = depth
		self.mod = source.load(src.file) if src else None
		self.cname = src.qualname.rsplit('.', 1)[0] if src and src.cls is not None else None
		self.label = f'{src.file[:-3].replace("/", ".")}:{src.qualname}' if src else 'synthetic'
		self.want: list[str] = []
		self.inputs: dict[str, Ty] = {}
		self.inst: dict[str, Any] = {}
		self.loop_ord: dict[int, int] = {}
		if src:
			loops = [n for n in ast.walk(src.node) if isinstance(n, (ast.While, ast.For))]
			loops.sort(key=lambda n: (n.lineno, n.col_offset))
			for i, n in enumerate(loops):
				self.loop_ord[id(n)] = i
		self.ret_ty: Ty | None = None
		self.local_funcs: dict[str, ast.FunctionDef] = {}
		self.dyn: str | None = (contract.dispatch if contract is not None and contract.dispatch else self.cname)
		if contract is not None and contract.dispatch:
			self.label += f'@{contract.dispatch}'

	@classmethod
	def synthetic(cls, eng: Engine, label: str, prop: str = '-') -> 'FnCtx':
		f = cls(eng, None, None, prop)
		f.label = label
		return f


class Ev:
	"""Expression evaluator over a State.  Nondeterminism (exceptional exits, multi-path inlined callees) goes through the oracle."""

	def __init__(self, eng: Engine, fn: FnCtx, st: State, oracle: Oracle, mode: str = 'code', old: State | None = None, guards: list[Any] | None = None, prev: State | None = None):
		self.eng = eng
		self.fn = fn
		self.st = st
		self.oracle = oracle
		self.mode = mode  # code | spec (contract/spec text: total, no exits)
		self.old = old
		self.prev = prev
		self.rw = (mode == 'code')  # contract-declared rewrites of external calls apply to code, never to contract text
		self.guards: list[Any] = guards or []

	# ---------------------------------------------------------------- helpers
	def exit_if(self, cond: Any, excname: str, on_exit: Callable[[], None] | None = None, any_subclass: bool = False) -> None:
		"""Register an exceptional exit: the current path continues under `not cond`."""
		if self.mode == 'spec':
			return
		cond = simp(cond) if not isinstance(cond, bool) else z3.BoolVal(cond)
		if z3.is_false(cond):
			return
		full = z3.And(*self.guards, cond) if self.guards else cond
		if z3.is_true(cond) and not self.guards:
			if on_exit is not None:
				on_exit()
			raise RaiseSignal(ExcVal(None, cname=excname))
		if quick_unsat(self.st.pc + [full]):
			self.st.assume(z3.Not(full))
			return
		c = self.oracle.choose(2)
		if c == 1:
			self.st.assume(full)
			if on_exit is not None:
				on_exit()
			ex = ExcVal(None, cname=excname)
			ex.any_subclass = any_subclass  # type: ignore[attr-defined]
			raise RaiseSignal(ex)
		self.st.assume(z3.Not(full))

	def lift(self, v: Any, ty: Ty | None = None) -> Val:
		return py_to_val(v, ty)

	def truth(self, node: ast.expr) -> Any:
		c = self.fn.contract
		if isinstance(node, ast.BoolOp) and not (c is not None and c.rewrites and self.rw and ast.unparse(node) in c.rewrites):
			# in a test position only the truth values matter (operands of different types need no common type)
			saved = list(self.guards)
			ts = []
			try:
				for e in node.values:
					t = self.truth(e)
					ts.append(t)
					self.guards.append(t if isinstance(node.op, ast.And) else z3.Not(t))
			finally:
				self.guards[:] = saved
			return z3.And(*ts) if isinstance(node.op, ast.And) else z3.Or(*ts)
		if isinstance(node, ast.UnaryOp) and isinstance(node.op, ast.Not):
			return z3.Not(self.truth(node.operand))
		return self.truthy(self.eval(node))

	def truthy(self, v: Val) -> Any:
		if v.is_conc() and not isinstance(v, (ClassRef, FuncRef)):
			return z3.BoolVal(bool(v.conc))
		t = v.ty
		if isinstance(t, TBool):
			return v.term
		if isinstance(t, TInt):
			return v.term != 0
		if isinstance(t, (TStr, TList)):
			return z3.Length(v.term) > 0
		if isinstance(t, TOpt):
			inner = Val(t.inner, t.val(v.term))
			if isinstance(t.inner, (TRec, TRef, TTuple, TFloat, TEnum, TUnion)):
				return t.is_some(v.term)
			return z3.And(t.is_some(v.term), self.truthy(inner))
		if isinstance(t, TNone):
			return z3.BoolVal(False)
		if isinstance(t, (TRec, TRef, TEnum)):
			return z3.BoolVal(True)
		if isinstance(t, TUnion):
			return z3.Or(*[z3.And(t.is_a(a, v.term), self.truthy(Val(a, t.proj(a, v.term)))) for a in t.alts])
		if isinstance(t, TDict):
			raise EngineError('truthiness of dict not modelled')
		raise EngineError(f'truthiness of {t}')

	def coerce(self, v: Val, ty: Ty | None) -> Val:
		if ty is None or v.ty is None or v.ty == ty:
			return v
		if isinstance(ty, TOpt):
			if isinstance(v.ty, TNone):
				return Val(ty, ty.none(), None)
			inner = self.coerce(v, ty.inner)
			return Val(ty, ty.some(inner.term), inner.conc)
		if isinstance(ty, TUnion):
			if v.ty in ty.alts:
				return Val(ty, ty.inject(v.ty, v.term), v.conc)
			if isinstance(v.ty, TBool) and INT in ty.alts:
				return Val(ty, ty.inject(INT, z3.If(v.term, 1, 0)), v.conc)
		if isinstance(v.ty, TOpt) and v.ty.inner == ty:
			return Val(ty, v.ty.val(v.term), v.conc)
		if isinstance(v.ty, TUnion) and ty in v.ty.alts:
			return Val(ty, v.ty.proj(ty, v.term), v.conc)
		if isinstance(ty, TInt) and isinstance(v.ty, TBool):
			return Val(INT, z3.If(v.term, 1, 0), int(v.conc) if v.is_conc() else NOCONC)
		if isinstance(ty, TList) and isinstance(v.ty, TList) and v.is_conc() and not v.conc:
			return py_to_val([], ty)
		if isinstance(ty, TList) and isinstance(v.ty, TTuple) and all(i == ty.elem for i in v.ty.items):
			terms = [v.ty.get(v.term, i) for i in range(len(v.ty.items))]
			return Val(ty, seq_of(terms, ty), items=[(None, Val(ty.elem, t)) for t in terms])
		if isinstance(ty, TDict) and isinstance(v.ty, TDict) and v.is_conc() and not v.conc:
			return Val(ty, ty.empty(), {})
		raise EngineError(f'cannot coerce {v.ty} to {ty} in {self.fn.label}')

	def narrow(self, v: Val) -> Val:
		"""A union-typed value used where one alternative is required: project to the only alternative the path condition allows."""
		if not isinstance(v.ty, TUnion):
			return v
		feas = [a for a in v.ty.alts if not quick_unsat(self.st.pc + self.guards + [v.ty.is_a(a, v.term)], 60)]
		if len(feas) == 1:
			return Val(feas[0], v.ty.proj(feas[0], v.term))
		if not feas:  # contradictory context (e.g. a guarded clause on a path where the guard is false): any reading will do
			return Val(v.ty.alts[0], v.ty.proj(v.ty.alts[0], v.term))
		return v

	def dispatch(self, v: Val, f: Callable[[Val], Val]) -> Val:
		"""Apply f per feasible alternative of a union value (guarded), merging the results."""
		assert isinstance(v.ty, TUnion)
		saved = list(self.guards)
		outs: list[tuple[Any, Val]] = []
		try:
			for a in v.ty.alts:
				tag = v.ty.is_a(a, v.term)
				if quick_unsat(self.st.pc + saved + [tag], 60):
					continue
				self.guards[:] = saved + [tag]
				outs.append((tag, f(Val(a, v.ty.proj(a, v.term)))))
		finally:
			self.guards[:] = saved
		if not outs:
			if self.mode == 'spec':
				a0 = v.ty.alts[0]
				return f(Val(a0, v.ty.proj(a0, v.term)))
			raise Infeasible()
		res = outs[-1][1]
		for tag, o in reversed(outs[:-1]):
			o2, r2 = self.unify(o, res)
			res = Val(o2.ty, z3.If(tag, o2.term, r2.term))
		return res

	def unwrap(self, v: Val) -> Val:
		"""Optional[T] used as T (after a None test in the code)."""
		if isinstance(v.ty, TOpt):
			return Val(v.ty.inner, v.ty.val(v.term), v.conc)
		return v

	def eq(self, a: Val, b: Val) -> Any:
		if isinstance(a, ClassRef) or isinstance(b, ClassRef):
			return z3.BoolVal(isinstance(a, ClassRef) and isinstance(b, ClassRef) and a.cname == b.cname)
		if a.is_conc() and b.is_conc():
			return z3.BoolVal(a.conc == b.conc)
		if a.ty == b.ty and isinstance(a.ty, TDict):
			t = a.ty
			k = z3.Const(fresh_name('eqk'), t.key.sort())
			return z3.ForAll([k], z3.And(z3.Select(t.dom(a.term), k) == z3.Select(t.dom(b.term), k),
				z3.Implies(z3.Select(t.dom(a.term), k), z3.Select(t.vals(a.term), k) == z3.Select(t.vals(b.term), k))))
		if a.ty == b.ty:
			return a.term == b.term
		for x, y in ((a, b), (b, a)):
			if isinstance(x.ty, TOpt):
				if isinstance(y.ty, TNone):
					return x.ty.is_none(x.term)
				if y.ty == x.ty.inner:
					return z3.And(x.ty.is_some(x.term), x.ty.val(x.term) == y.term)
			if isinstance(x.ty, TUnion) and y.ty in x.ty.alts:
				return z3.And(x.ty.is_a(y.ty, x.term), x.ty.proj(y.ty, x.term) == y.term)
			if isinstance(x.ty, TInt) and isinstance(y.ty, TBool):
				return x.term == z3.If(y.term, 1, 0)
			if isinstance(x.ty, TList) and isinstance(y.ty, TList) and y.is_conc() and not y.conc:
				return z3.Length(x.term) == 0
		if isinstance(a.ty, TUnion) or isinstance(b.ty, TUnion) or isinstance(a.ty, TOpt) or isinstance(b.ty, TOpt):
			return z3.BoolVal(False)
		if type(a.ty) is not type(b.ty):
			return z3.BoolVal(False)
		raise EngineError(f'== between {a.ty} and {b.ty}')

	# ---------------------------------------------------------------- main dispatch
	def eval(self, n: ast.expr) -> Val:
		c = self.fn.contract
		if c is not None and c.rewrites and self.rw and isinstance(n, (ast.Subscript, ast.Attribute, ast.Compare, ast.BoolOp, ast.ListComp, ast.Dict)):
			txt = ast.unparse(n)
			if txt in c.rewrites:
				self.eng.used_rewrites.add(f'{self.fn.label}: {txt}  ~>  {c.rewrites[txt]}')
				return self.eval(ast.parse(c.rewrites[txt], mode='eval').body)
		m = getattr(self, 'e_' + type(n).__name__, None)
		if m is None:
			raise EngineError(f'unsupported expression {type(n).__name__}: {ast.unparse(n)[:80]} in {self.fn.label}')
		return m(n)

	def e_Constant(self, n: ast.Constant) -> Val:
		if isinstance(n.value, float):
			return self.float_const(n.value)
		if n.value is Ellipsis:
			raise EngineError('Ellipsis')
		return self.lift(n.value)

	def float_const(self, x: float) -> Val:
		f = z3.Function('flit', z3.StringSort(), FLOAT.sort())
		return Val(FLOAT, f(z3.StringVal(repr(x))), x)

	def e_Name(self, n: ast.Name) -> Val:
		name = n.id
		if name in self.st.env:
			return self.st.env[name]
		if name in ('True', 'False', 'None'):
			return self.lift({'True': True, 'False': False, 'None': None}[name])
		if self.mode == 'spec' and self.old is not None and name in self.old.env:
			return self.old.env[name]
		if name in REG.consts:
			return self.lift(REG.consts[name])
		if name in REG.specs:
			return SpecRef(None, name=name)
		if name in REG.lemmas:
			return SpecRef(None, name=name)
		if name in REG.externals:
			return SpecRef(None, name=name)
		if name in self.fn.local_funcs:
			return FuncRef(None, qualname=f'<local>{name}')
		if self.fn.mod is not None:
			if name in self.fn.mod.classes:
				return ClassRef(None, cname=name, module=self.fn.mod.file)
			if name in self.fn.mod.funcs:
				return FuncRef(None, qualname=name, module=self.fn.mod.file)
			r = source.resolve_import(self.fn.mod, name)
			if r:
				m = source.load(r[0])
				if r[1] in m.classes:
					return ClassRef(None, cname=r[1], module=r[0])
				if r[1] in m.funcs:
					return FuncRef(None, qualname=r[1], module=r[0])
			if name in self.fn.mod.imports:
				return ModuleRef(None, module=self.fn.mod.imports[name])
			# module-level constants
			for stt in self.fn.mod.tree.body:
				if isinstance(stt, ast.Assign) and any(isinstance(t, ast.Name) and t.id == name for t in stt.targets):
					try:
						return self.lift(ast.literal_eval(stt.value))
					except Exception:
						break
		if name in BUILTIN_EXC:
			return ClassRef(None, cname=name, module='builtins')
		if name in ('int', 'str', 'float', 'bool', 'list', 'dict', 'tuple', 'type'):
			return ClassRef(None, cname=name, module='builtins')
		raise EngineError(f'unbound name {name} in {self.fn.label}')

	def class_attr(self, cref: ClassRef, attr: str) -> Val:
		"""Class-level constant or nested class / method."""
		if cref.module == 'builtins':
			raise EngineError(f'{cref.cname}.{attr}')
		mod = source.load(cref.module)
		q = f'{cref.cname}.{attr}'
		if q in mod.classes:
			return ClassRef(None, cname=q, module=cref.module)
		if q in mod.funcs:
			return FuncRef(None, qualname=q, module=cref.module, bound_self=cref)
		cls = mod.classes.get(cref.cname)
		if cls is not None:
			for stt in cls.body:
				tg: list[ast.expr] = []
				val = None
				if isinstance(stt, ast.Assign):
					tg, val = stt.targets, stt.value
				elif isinstance(stt, ast.AnnAssign) and stt.value is not None:
					tg, val = [stt.target], stt.value
				if val is not None and any(isinstance(t, ast.Name) and t.id == attr for t in tg):
					sub = Ev(self.eng, self._class_ctx(cref), State(self._class_env(cref, cls, attr)), self.oracle, 'spec')
					return sub.eval(val)
		for bf, bc in source.class_bases(mod, cref.cname):
			try:
				return self.class_attr(ClassRef(None, cname=bc, module=bf), attr)
			except EngineError:
				pass
		raise EngineError(f'class attribute {q} not found')

	def _class_ctx(self, cref: ClassRef) -> FnCtx:
		f = FnCtx.synthetic(self.eng, f'class:{cref.cname}', self.fn.prop)
		f.mod = source.load(cref.module)
		f.cname = cref.cname
		return f

	def _class_env(self, cref: ClassRef, cls: ast.ClassDef, upto: str) -> dict[str, Val]:
		env: dict[str, Val] = {}
		for stt in cls.body:
			tg: list[ast.expr] = []
			val = None
			if isinstance(stt, ast.Assign):
				tg, val = stt.targets, stt.value
			elif isinstance(stt, ast.AnnAssign) and stt.value is not None:
				tg, val = [stt.target], stt.value
			if val is None:
				continue
			for t in tg:
				if isinstance(t, ast.Name):
					if t.id == upto:
						return env
					try:
						env[t.id] = Ev(self.eng, self._class_ctx(cref), State(dict(env)), self.oracle, 'spec').eval(val)
					except EngineError:
						pass
		return env

	def e_Attribute(self, n: ast.Attribute) -> Val:
		if ast.unparse(n) in self.st.env:  # ghost bindings such as 'self.x' are not used; kept for contract params
			return self.st.env[ast.unparse(n)]
		base = self.eval(n.value)
		attr = n.attr
		if isinstance(base, ClassRef):
			return self.class_attr(base, attr)
		if isinstance(base, ModuleRef):
			return ModuleRef(None, module=f'{base.module}.{attr}')
		return self.get_attr(base, attr, n)

	def get_attr(self, base: Val, attr: str, n: ast.AST | None = None) -> Val:
		if isinstance(base.ty, TOpt):
			base = self.unwrap(base)
		if attr == 'value' and isinstance(base.ty, (TInt, TStr)):
			return base  # Enum members are modelled by their values
		if isinstance(base.ty, TRec):
			mattr = source.mangle(self.fn.cname, attr)
			for cand in (attr, mattr):
				if cand in base.ty.fnames():
					return Val(base.ty.fty(cand), base.ty.get(base.term, cand))
			# property or method of the record's class
			rec = REG.records.get(base.ty.rname)
			if rec and rec.source:
				try:
					ca = self.class_attr(ClassRef(None, cname=rec.source[1], module=rec.source[0]), attr)
					if not isinstance(ca, (FuncRef, ClassRef)):
						return ca  # a class-level constant read through an instance
				except EngineError:
					pass
				f = None
				private = attr.startswith('__') and not attr.endswith('__')
				if private and self.fn.cname and self.fn.src is not None:
					f = source.load(self.fn.src.file).funcs.get(f'{self.fn.cname}.{attr}')  # name-mangled: static class only
				elif self.fn.dyn and self.fn.src is not None and self.fn.src.file == rec.source[0] and (rec.source[1] == self.fn.dyn or self.eng_is_ancestor(rec.source[0], rec.source[1], self.fn.dyn) or self.eng_is_ancestor(rec.source[0], self.fn.dyn, rec.source[1])):
					# virtual dispatch applies to objects of the current class family only
					f = source.find_method(rec.source[0], self.fn.dyn, attr)
				if f is None:
					f = source.find_method(rec.source[0], rec.source[1], attr)
				if f is not None:
					if f.kind == 'property':
						return self.call_function(f, [base], {}, recv=base, recv_name=None, node=n)
					return FuncRef(None, qualname=f.qualname, module=f.file, bound_self=base)
			raise EngineError(f'no field {attr} on record {base.ty.rname}')
		if isinstance(base.ty, TRef):
			key = f'{base.ty.rname}.{attr}'
			if key in REG.externals:
				self.eng.use_external(key)
				f = self.eng.ext_func(key)
				return Val(self.eng.tenv.parse(REG.externals[key].ret), f(base.term))
			raise EngineError(f'attribute {attr} of opaque {base.ty.rname} (declare external "{key}")')
		raise EngineError(f'attribute {attr} on {base.ty}')

	def eng_is_ancestor(self, file: str, anc: str, cls: str, depth: int = 0) -> bool:
		"""Is class `anc` a (transitive) base of class `cls` (both looked up from `file`)?"""
		if depth > 8:
			return False
		try:
			mod = source.load(file)
		except Exception:  # noqa: BLE001
			return False
		for bf, bc in source.class_bases(mod, cls):
			if bc == anc or self.eng_is_ancestor(bf, anc, bc, depth + 1):
				return True
		return False

	# ---------------------------------------------------------------- operators
	def e_UnaryOp(self, n: ast.UnaryOp) -> Val:
		if isinstance(n.op, ast.Not):
			return Val(BOOL, z3.Not(self.truth(n.operand)))
		v = self.narrow(self.eval(n.operand))
		if isinstance(v.ty, TUnion):
			return self.dispatch(v, lambda x: self.unary(n.op, x))
		return self.unary(n.op, v)

	def unary(self, op: ast.unaryop, v: Val) -> Val:
		n = ast.UnaryOp(op, ast.Constant(0))
		if v.is_conc() and isinstance(v.conc, (int, float)) and not isinstance(v.ty, TFloat):
			return self.lift(-v.conc if isinstance(n.op, ast.USub) else +v.conc)
		if isinstance(n.op, ast.USub):
			if isinstance(v.ty, TInt):
				return Val(INT, -v.term)
			if isinstance(v.ty, TFloat):
				return Val(FLOAT, z3.Function('fneg', FLOAT.sort(), FLOAT.sort())(v.term))
			if isinstance(v.ty, TUnion):
				raise EngineError('unary minus on union: narrow with isinstance first')
		if isinstance(n.op, ast.UAdd):
			return v
		raise EngineError(f'unary {ast.unparse(n)} on {v.ty}')

	def e_BoolOp(self, n: ast.BoolOp) -> Val:
		# value semantics only for bools; mixed (x or default) handled for Optional/str
		vals: list[Val] = []
		saved = list(self.guards)
		try:
			for i, e in enumerate(n.values):
				v = self.eval(e)
				vals.append(v)
				t = self.truthy(v)
				self.guards.append(t if isinstance(n.op, ast.And) else z3.Not(t))
		finally:
			self.guards[:] = saved
		if all(isinstance(v.ty, TBool) for v in vals):
			ts = [v.term for v in vals]
			return Val(BOOL, z3.And(*ts) if isinstance(n.op, ast.And) else z3.Or(*ts))
		# a or b / a and b returning operands
		res = vals[-1]
		for v in reversed(vals[:-1]):
			t = self.truthy(v)
			a, b = self.unify(v, res)
			res = Val(a.ty, z3.If(t, b.term, a.term) if isinstance(n.op, ast.And) else z3.If(t, a.term, b.term))
		return res

	def unify(self, a: Val, b: Val) -> tuple[Val, Val]:
		if a.ty == b.ty:
			return a, b
		if isinstance(a.ty, TList) and isinstance(b.ty, TList):
			if a.is_conc() and not a.conc:
				return self.coerce(a, b.ty), b
			if b.is_conc() and not b.conc:
				return a, self.coerce(b, a.ty)
		for x, y, sw in ((a, b, False), (b, a, True)):
			try:
				yy = self.coerce(y, x.ty)
				return (x, yy) if not sw else (yy, x)
			except EngineError:
				pass
		if isinstance(a.ty, TNone) and b.ty is not None and not isinstance(b.ty, TOpt):
			ot = TOpt(b.ty)
			return self.coerce(a, ot), self.coerce(b, ot)
		if isinstance(b.ty, TNone) and a.ty is not None and not isinstance(a.ty, TOpt):
			ot = TOpt(a.ty)
			return self.coerce(a, ot), self.coerce(b, ot)
		raise EngineError(f'cannot unify {a.ty} and {b.ty}')

	def e_IfExp(self, n: ast.IfExp) -> Val:
		c = self.truth(n.test)
		if z3.is_true(simp(c)):
			return self.eval(n.body)
		if z3.is_false(simp(c)):
			return self.eval(n.orelse)
		saved = list(self.guards)
		# `x if x is not None else d` / `d if x is None else x`: the branch that uses x sees it as the inner type
		tst = n.test
		opt_name, some_branch = None, None
		if isinstance(tst, ast.Compare) and len(tst.ops) == 1 and isinstance(tst.left, ast.Name) and isinstance(tst.comparators[0], ast.Constant) and tst.comparators[0].value is None:
			if isinstance(tst.ops[0], ast.IsNot):
				opt_name, some_branch = tst.left.id, 'body'
			elif isinstance(tst.ops[0], ast.Is):
				opt_name, some_branch = tst.left.id, 'orelse'

		def branch(which: str, node: ast.expr) -> Val:
			v = self.eval(node)
			if which == some_branch and isinstance(node, ast.Name) and node.id == opt_name and isinstance(v.ty, TOpt):
				return self.unwrap(v)
			return v
		try:
			self.guards.append(c)
			a = branch('body', n.body)
			self.guards[:] = saved + [z3.Not(c)]
			b = branch('orelse', n.orelse)
		finally:
			self.guards[:] = saved
		a, b = self.unify(a, b)
		return Val(a.ty, z3.If(c, a.term, b.term))

	def e_BinOp(self, n: ast.BinOp) -> Val:
		a, b = self.narrow(self.eval(n.left)), self.narrow(self.eval(n.right))
		if isinstance(a.ty, TUnion):
			return self.dispatch(a, lambda x: self.binop(x, n.op, b, n) if not isinstance(b.ty, TUnion) else self.dispatch(b, lambda y: self.binop(x, n.op, y, n)))
		if isinstance(b.ty, TUnion):
			return self.dispatch(b, lambda y: self.binop(a, n.op, y, n))
		return self.binop(a, n.op, b, n)

	def binop(self, a: Val, op: ast.operator, b: Val, n: ast.AST | None = None) -> Val:
		if a.is_conc() and b.is_conc() and not isinstance(a.ty, TFloat) and not isinstance(b.ty, TFloat) and not isinstance(op, ast.Div):
			import operator as _op
			tbl = {ast.Add: _op.add, ast.Sub: _op.sub, ast.Mult: _op.mul, ast.FloorDiv: _op.floordiv, ast.Mod: _op.mod, ast.BitOr: _op.or_, ast.BitAnd: _op.and_, ast.BitXor: _op.xor, ast.LShift: _op.lshift, ast.RShift: _op.rshift}
			f = tbl.get(type(op))
			if f is not None:
				try:
					ty = a.ty if isinstance(a.ty, TList) else None
					return self.lift(f(a.conc, b.conc), ty)
				except ZeroDivisionError:
					pass
		if isinstance(a.ty, TBool):
			a = self.coerce(a, INT)
		if isinstance(b.ty, TBool):
			b = self.coerce(b, INT)
		if isinstance(a.ty, TInt) and isinstance(b.ty, TInt):
			x, y = a.term, b.term
			if isinstance(op, ast.Add):
				return Val(INT, x + y)
			if isinstance(op, ast.Sub):
				return Val(INT, x - y)
			if isinstance(op, ast.Mult):
				return Val(INT, x * y)
			if isinstance(op, (ast.FloorDiv, ast.Mod)):
				self.exit_if(y == 0, 'ZeroDivisionError')
				q, r = x / y, x % y
				if isinstance(op, ast.FloorDiv):
					return Val(INT, z3.If(z3.And(y < 0, r != 0), q - 1, q))
				return Val(INT, z3.If(z3.And(y < 0, r != 0), r + y, r))
			if isinstance(op, ast.Div):
				self.exit_if(y == 0, 'ZeroDivisionError')
				# int / int is CPython's correctly rounded true division: NOT float(x) / float(y) for operands beyond 2**53
				return Val(FLOAT, z3.Function('itruediv', z3.IntSort(), z3.IntSort(), FLOAT.sort())(x, y))
			# exact special cases: shifting right by a constant is floor division by a power of two; masking with 2**k - 1 is the remainder
			if isinstance(op, ast.RShift) and b.is_conc() and isinstance(b.conc, int) and 0 <= b.conc < 64:
				return Val(INT, x / z3.IntVal(2 ** b.conc))
			if isinstance(op, ast.LShift) and b.is_conc() and isinstance(b.conc, int) and 0 <= b.conc < 64:
				return Val(INT, x * z3.IntVal(2 ** b.conc))
			if isinstance(op, ast.BitAnd) and b.is_conc() and isinstance(b.conc, int) and b.conc >= 0 and (b.conc + 1) & b.conc == 0:
				return Val(INT, x % z3.IntVal(b.conc + 1))
			names = {ast.BitOr: 'int_or', ast.BitAnd: 'int_and', ast.BitXor: 'int_xor', ast.LShift: 'int_shl', ast.RShift: 'int_shr'}
			if type(op) in names:
				if isinstance(op, (ast.LShift, ast.RShift)):
					self.exit_if(y < 0, 'ValueError')
				return Val(INT, z3.Function(names[type(op)], z3.IntSort(), z3.IntSort(), z3.IntSort())(x, y))
		if isinstance(a.ty, TFloat) or isinstance(b.ty, TFloat):
			x = a.term if isinstance(a.ty, TFloat) else self.i2f(a.term)
			y = b.term if isinstance(b.ty, TFloat) else self.i2f(b.term)
			names = {ast.Add: 'fadd', ast.Sub: 'fsub', ast.Mult: 'fmul', ast.Div: 'fdiv', ast.Mod: 'fmod'}
			if type(op) in names:
				if isinstance(op, (ast.Div, ast.Mod)):
					self.exit_if(z3.Function('fiszero', FLOAT.sort(), z3.BoolSort())(y), 'ZeroDivisionError')
				return Val(FLOAT, self.ffun(names[type(op)], 2)(x, y))
		if isinstance(a.ty, TStr) and isinstance(b.ty, TStr) and isinstance(op, ast.Add):
			return Val(STR, z3.Concat(a.term, b.term))
		if isinstance(a.ty, TStr) and isinstance(b.ty, TInt) and isinstance(op, ast.Mult):
			return self.str_repeat(a, b)
		if isinstance(a.ty, TList) and isinstance(b.ty, TList) and isinstance(op, ast.Add):
			a, b = self.unify(a, b)
			items = (a.items + b.items) if a.items is not None and b.items is not None else None
			return Val(a.ty, z3.Concat(a.term, b.term), items=items)
		if isinstance(a.ty, TList) and isinstance(b.ty, TInt) and isinstance(op, ast.Mult):
			return self.list_repeat(a, b)
		raise EngineError(f'binary {type(op).__name__} on {a.ty}, {b.ty} in {self.fn.label}')

	def ffun(self, name: str, arity: int):
		return z3.Function(name, *([FLOAT.sort()] * arity), FLOAT.sort())

	def i2f(self, t: Any) -> Any:
		r = z3.Function('i2f', z3.IntSort(), FLOAT.sort())(t)
		# float fact (trusted): int -> float conversion gives zero exactly for 0
		self.st.assume(z3.Function('fiszero', FLOAT.sort(), z3.BoolSort())(r) == (t == 0))
		return r

	def str_repeat(self, s: Val, n: Val) -> Val:
		if n.is_conc():
			k = max(0, n.conc)
			return Val(STR, z3.Concat(*([s.term] * k)) if k > 1 else (s.term if k == 1 else z3.StringVal('')))
		f = self.rec('rf_strrep', [STR, INT], STR, lambda a, k, me: z3.If(k <= 0, z3.StringVal(''), z3.Concat(me(a, k - 1), a)))
		res = f(s.term, n.term)
		if s.is_conc():
			# consequence of the recursive definition (induction on n): k copies of a string of length m have length m * max(k, 0)
			self.st.assume(z3.Length(res) == z3.If(n.term > 0, len(s.conc) * n.term, 0))
		return Val(STR, res)

	def list_repeat(self, s: Val, n: Val) -> Val:
		assert isinstance(s.ty, TList)
		f = self.rec(f'rf_listrep_{s.ty.sort().name()}'.replace(' ', '_').replace('(', '').replace(')', ''), [s.ty, INT], s.ty, lambda a, k, me: z3.If(k <= 0, z3.Empty(s.ty.sort()), z3.Concat(me(a, k - 1), a)))
		res = f(s.term, n.term)
		if s.items is not None:
			# consequence of the recursive definition (induction on n): k copies of a list of known length m have length m * max(k, 0)
			m = len(s.items)
			self.st.assume(z3.Length(res) == z3.If(n.term > 0, m * n.term, 0))
		return Val(s.ty, res)

	def rec(self, name: str, ptys: list[Ty], rty: Ty, body: Callable[..., Any]):
		if name in self.eng.rec_funcs:
			return self.eng.rec_funcs[name]
		f = z3.RecFunction(name, *[t.sort() for t in ptys], rty.sort())
		self.eng.rec_funcs[name] = f
		params = [z3.Const(f'{name}_p{i}', t.sort()) for i, t in enumerate(ptys)]
		z3.RecAddDefinition(f, params, body(*params, f))
		return f

	def e_Compare(self, n: ast.Compare) -> Val:
		left = self.eval(n.left)
		parts = []
		saved = list(self.guards)
		try:
			for op, rn in zip(n.ops, n.comparators):
				right = self.eval(rn)
				c = self.compare(left, op, right)
				parts.append(c)
				self.guards.append(c)
				left = right
		finally:
			self.guards[:] = saved
		return Val(BOOL, parts[0] if len(parts) == 1 else z3.And(*parts))

	def user_eq(self, a: Val, b: Val) -> Any | None:
		"""`==` on instances of a repo class that defines __eq__ (code mode only): dispatch to that method."""
		if self.mode != 'code':
			return None
		t = a.ty.inner if isinstance(a.ty, TOpt) else a.ty
		if not isinstance(t, TRec):
			return None
		rec = REG.records.get(t.rname)
		if not rec or not rec.source:
			return None
		f = source.find_method(rec.source[0], rec.source[1], '__eq__')
		if f is None:
			return None
		r = self.call_function(f, [self.unwrap(a), self.unwrap(b)], {}, recv=self.unwrap(a), recv_name=None, node=None)
		return self.truthy(r)

	def compare(self, a: Val, op: ast.cmpop, b: Val) -> Any:
		if isinstance(op, (ast.Eq, ast.NotEq)):
			u = self.user_eq(a, b)
			if u is not None:
				return u if isinstance(op, ast.Eq) else z3.Not(u)
		if isinstance(op, ast.Eq):
			return self.eq(a, b)
		if isinstance(op, ast.NotEq):
			return z3.Not(self.eq(a, b))
		if isinstance(op, (ast.Is, ast.IsNot)):
			if isinstance(b.ty, TNone) or isinstance(a.ty, TNone):
				x = a if isinstance(b.ty, TNone) else b
				if isinstance(x.ty, TOpt):
					r = x.ty.is_none(x.term)
				elif isinstance(x.ty, TNone):
					r = z3.BoolVal(True)
				else:
					r = z3.BoolVal(False)
			elif isinstance(a, ClassRef) or isinstance(b, ClassRef):
				r = self.eq(a, b)
			elif isinstance(a.ty, (TRef, TBool, TEnum)) and a.ty == b.ty:
				r = a.term == b.term
			else:
				raise EngineError(f'`is` between {a.ty} and {b.ty}')
			return r if isinstance(op, ast.Is) else z3.Not(r)
		if isinstance(op, (ast.In, ast.NotIn)):
			r = self.contains(b, a)
			return r if isinstance(op, ast.In) else z3.Not(r)
		a, b = self.narrow(a), self.narrow(b)
		if isinstance(a.ty, TBool):
			a = self.coerce(a, INT)
		if isinstance(b.ty, TBool):
			b = self.coerce(b, INT)
		if isinstance(a.ty, TInt) and isinstance(b.ty, TInt):
			x, y = a.term, b.term
			return {ast.Lt: x < y, ast.LtE: x <= y, ast.Gt: x > y, ast.GtE: x >= y}[type(op)]
		if isinstance(a.ty, TStr) and isinstance(b.ty, TStr):
			x, y = a.term, b.term
			return {ast.Lt: x < y, ast.LtE: x <= y, ast.Gt: y < x, ast.GtE: y <= x}[type(op)]
		raise EngineError(f'comparison {type(op).__name__} on {a.ty}, {b.ty}')

	def contains(self, container: Val, x: Val) -> Any:
		container, x = self.narrow(container), self.narrow(x)
		if isinstance(container.ty, TOpt):
			if self.mode != 'spec':
				self.exit_if(container.ty.is_none(container.term), 'TypeError')  # `x in None`
			container = self.unwrap(container)
		t = container.ty
		if container.is_conc() and x.is_conc():
			return z3.BoolVal(x.conc in container.conc)
		if isinstance(t, TStr):
			x = self.coerce(x, STR)
			return z3.Contains(container.term, x.term)
		if isinstance(t, TList):
			if container.items is not None:
				cs = []
				for cond, it in container.items:
					e = self.eq(it, x)
					cs.append(e if cond is None else z3.And(cond, e))
				return z3.Or(*cs) if cs else z3.BoolVal(False)
			x = self.coerce(x, t.elem)
			return z3.Contains(container.term, z3.Unit(x.term))
		if isinstance(t, TDict):
			x = self.coerce(x, t.key)
			return z3.Select(t.dom(container.term), x.term)
		if isinstance(t, TTuple):
			return z3.Or(*[self.eq(Val(it, t.get(container.term, i)), x) for i, it in enumerate(t.items)])
		raise EngineError(f'`in` on {t}')

	# ---------------------------------------------------------------- strings
	def e_JoinedStr(self, n: ast.JoinedStr) -> Val:
		parts: list[Any] = []
		allc = True
		concs: list[str] = []
		for p in n.values:
			if isinstance(p, ast.Constant):
				parts.append(z3.StringVal(p.value))
				concs.append(p.value)
			else:
				assert isinstance(p, ast.FormattedValue)
				try:
					v = self.to_str(self.eval(p.value))
				except EngineError:
					v = self.eng.fresh(STR, 'repr')  # an unmodelled value inside a message: any string
				parts.append(v.term)
				if v.is_conc():
					concs.append(v.conc)
				else:
					allc = False
		if allc:
			return self.lift(''.join(concs))
		if not parts:
			return self.lift('')
		return Val(STR, parts[0] if len(parts) == 1 else z3.Concat(*parts))

	def to_str(self, v: Val) -> Val:
		if isinstance(v.ty, TStr):
			return v
		if v.is_conc() and isinstance(v.conc, (int, str, bool, type(None))):
			return self.lift(str(v.conc))
		if isinstance(v.ty, TInt):
			return Val(STR, z3.If(v.term >= 0, z3.IntToStr(v.term), z3.Concat(z3.StringVal('-'), z3.IntToStr(-v.term))))
		if isinstance(v.ty, TFloat):
			return Val(STR, z3.Function('f2s', FLOAT.sort(), z3.StringSort())(v.term))
		if isinstance(v.ty, TUnion):
			res = None
			for a in reversed(v.ty.alts):
				s = self.to_str(Val(a, v.ty.proj(a, v.term))).term
				res = s if res is None else z3.If(v.ty.is_a(a, v.term), s, res)
			return Val(STR, res)
		# repr of anything else: an unconstrained string (only used inside messages)
		return self.eng.fresh(STR, 'repr')

	def known(self, cond: Any) -> bool:
		"""True only if the current path condition (and guards) proves cond; used to drop dead clamping branches."""
		c = simp(cond)
		if z3.is_true(c):
			return True
		if z3.is_false(c):
			return False
		if not self.st.pc and not self.guards:
			return False
		return quick_unsat(self.st.pc + self.guards + [z3.Not(cond)], 40)

	def norm_index(self, i: Val, length: Any) -> Any:
		if i.is_conc():
			return z3.IntVal(i.conc) if i.conc >= 0 else length + i.conc
		if self.known(i.term >= 0):
			return i.term
		return z3.If(i.term < 0, i.term + length, i.term)

	def e_Subscript(self, n: ast.Subscript) -> Val:
		base = self.eval(n.value)
		if isinstance(n.slice, ast.Slice):
			return self.slice(base, n.slice)
		if isinstance(base.ty, TRec) and self.mode != 'spec':
			# obj[key] on a repo class: its __getitem__ (by contract or inlined)
			call = ast.Call(ast.Attribute(n.value, '__getitem__', ast.Load()), [n.slice], [])
			return self.eval(ast.fix_missing_locations(ast.copy_location(call, n)))
		idx = self.eval(n.slice)
		return self.index(base, idx)

	def index(self, base: Val, idx: Val) -> Val:
		base, idx = self.narrow(base), self.narrow(idx)
		if isinstance(base.ty, TOpt):
			base = self.unwrap(base)
		t = base.ty
		if isinstance(t, (TStr, TList)):
			if isinstance(idx.ty, TBool):
				idx = self.coerce(idx, INT)
			if not isinstance(idx.ty, TInt):
				raise EngineError(f'index of type {idx.ty}')
			if base.is_conc() and idx.is_conc():
				try:
					return self.lift(base.conc[idx.conc], t.elem if isinstance(t, TList) else None)
				except IndexError:
					self.exit_if(z3.BoolVal(True), 'IndexError')
					raise Infeasible()
			if isinstance(t, TList) and base.items is not None and idx.is_conc() and all(c is None for c, _ in base.items):
				k = idx.conc
				if -len(base.items) <= k < len(base.items):
					return base.items[k][1]
			ln = z3.Length(base.term)
			i = self.norm_index(idx, ln)
			self.exit_if(z3.Or(i < 0, i >= ln), 'IndexError')
			if isinstance(t, TStr):
				return Val(STR, z3.SubString(base.term, i, 1))
			return Val(t.elem, base.term[i])
		if isinstance(t, TTuple):
			if not idx.is_conc():
				raise EngineError('symbolic index into fixed tuple')
			k = idx.conc
			if k < 0:
				k += len(t.items)
			return Val(t.items[k], t.get(base.term, k))
		if isinstance(t, TDict):
			key = self.coerce(idx, t.key)
			self.exit_if(z3.Not(z3.Select(t.dom(base.term), key.term)), 'KeyError')
			return Val(t.val, z3.Select(t.vals(base.term), key.term))
		raise EngineError(f'subscript on {t} in {self.fn.label}')

	def slice_bounds(self, base_len: Any, sl: ast.Slice) -> tuple[Any, Any]:
		if sl.step is not None:
			raise EngineError('slice step')
		def clamp(v: Val | None, default: Any) -> Any:
			if v is None:
				return default
			if isinstance(v.ty, TOpt):
				raise EngineError('optional slice bound')
			i = self.norm_index(v, base_len)
			lo_ok = self.known(i >= 0)
			hi_ok = self.known(i <= base_len)
			if lo_ok and hi_ok:
				return i
			if lo_ok:
				return z3.If(i > base_len, base_len, i)
			return z3.If(i < 0, 0, z3.If(i > base_len, base_len, i))
		lo = clamp(self.eval(sl.lower) if sl.lower is not None else None, z3.IntVal(0))
		hi = clamp(self.eval(sl.upper) if sl.upper is not None else None, base_len)
		return lo, hi

	def slice(self, base: Val, sl: ast.Slice) -> Val:
		base = self.narrow(base)
		t = base.ty
		if isinstance(t, TOpt):
			base = self.unwrap(base)
			t = base.ty
		if not isinstance(t, (TStr, TList)):
			raise EngineError(f'slice of {t}')
		lo_v = self.eval(sl.lower) if sl.lower is not None else None
		hi_v = self.eval(sl.upper) if sl.upper is not None else None
		if base.is_conc() and (lo_v is None or lo_v.is_conc()) and (hi_v is None or hi_v.is_conc()) and sl.step is None:
			return self.lift(base.conc[(lo_v.conc if lo_v else None):(hi_v.conc if hi_v else None)], t if isinstance(t, TList) else None)
		if isinstance(t, TList) and base.items is not None and (lo_v is None or lo_v.is_conc()) and (hi_v is None or hi_v.is_conc()) and all(c is None for c, _ in base.items):
			its = base.items[(lo_v.conc if lo_v else None):(hi_v.conc if hi_v else None)]
			return Val(t, seq_of([v.term for _, v in its], t), items=its)
		ln = z3.Length(base.term)
		lo, hi = self.slice_bounds(ln, sl)
		lo, hi = simp(lo), simp(hi)
		ln2 = hi - lo if self.known(hi >= lo) else z3.If(hi > lo, hi - lo, 0)
		return Val(t, z3.SubString(base.term, lo, ln2) if isinstance(t, TStr) else z3.Extract(base.term, lo, ln2))

	# ---------------------------------------------------------------- displays
	def e_List(self, n: ast.List) -> Val:
		return self.seq_display(n.elts)

	def seq_display(self, elts: list[ast.expr], want: TList | None = None) -> Val:
		items: list[tuple[Any, Val]] | None = []
		parts: list[Any] = []
		ety: Ty | None = want.elem if want else None
		vals: list[tuple[bool, Val]] = []
		for e in elts:
			if isinstance(e, ast.Starred):
				sv = self.eval(e.value)
				if isinstance(sv.ty, TOpt):
					if self.mode != 'spec':
						self.exit_if(sv.ty.is_none(sv.term), 'TypeError')  # `[*None]`
					sv = self.unwrap(sv)
				vals.append((True, sv))
			else:
				vals.append((False, self.eval(e)))
		for star, v in vals:
			if ety is None:
				ety = v.ty.elem if star and isinstance(v.ty, TList) else (v.ty if not star else None)
		if ety is None:
			if not vals:
				return py_to_val([], TList(NONE))  # polymorphic empty list: coerced at use
			raise EngineError('empty list display needs an annotation')
		lty = TList(ety)
		for star, v in vals:
			if star:
				if isinstance(v.ty, TTuple):
					v = self.coerce(v, lty)
				if not isinstance(v.ty, TList):
					raise EngineError(f'cannot unpack {v.ty}')
				parts.append(v.term)
				if items is not None and v.items is not None:
					items.extend(v.items)
				else:
					items = None
			else:
				v = self.coerce(v, ety)
				parts.append(z3.Unit(v.term))
				if items is not None:
					items.append((None, v))
		term = z3.Empty(lty.sort()) if not parts else (parts[0] if len(parts) == 1 else z3.Concat(*parts))
		conc = NOCONC
		if items is not None and all(c is None and v.is_conc() for c, v in items):
			conc = [v.conc for _, v in items]
		return Val(lty, term, conc, items)

	def e_Tuple(self, n: ast.Tuple) -> Val:
		if any(isinstance(e, ast.Starred) for e in n.elts):
			return self.seq_display(n.elts)
		vals = [self.eval(e) for e in n.elts]
		if any(v.ty is None for v in vals):
			return Val(None, None, tuple(vals))  # tuple of classes etc. (isinstance second argument)
		ty = TTuple(tuple(v.ty for v in vals))  # type: ignore[misc]
		conc = tuple(v.conc for v in vals) if all(v.is_conc() for v in vals) else NOCONC
		return Val(ty, ty.mk(*[v.term for v in vals]), conc)

	def e_Dict(self, n: ast.Dict) -> Val:
		want = getattr(n, '_want', None)
		pieces: list[tuple[str, Any, Any]] = []
		for k, v in zip(n.keys, n.values):
			if k is None:
				pieces.append(('merge', self.eval(v), None))
			else:
				pieces.append(('item', self.eval(k), self.eval(v)))
		dty: TDict | None = want
		for kind, a, b in pieces:
			if dty is None:
				dty = a.ty if kind == 'merge' else TDict(a.ty, b.ty)
		if dty is None:
			raise EngineError('empty dict display needs an annotation')
		cur = Val(dty, dty.empty(), {})
		for kind, a, b in pieces:
			if kind == 'item':
				cur = self.dict_store(cur, self.coerce(a, dty.key), self.coerce(b, dty.val))
			else:
				cur = self.dict_merge(cur, self.coerce(a, dty))
		return cur

	def dict_store(self, d: Val, k: Val, v: Val) -> Val:
		t = d.ty
		assert isinstance(t, TDict)
		present = z3.Select(t.dom(d.term), k.term)
		return Val(t, t.mk(z3.Store(t.dom(d.term), k.term, z3.BoolVal(True)), z3.Store(t.vals(d.term), k.term, v.term), t.size(d.term) + z3.If(present, 0, 1)))

	def dict_merge(self, a: Val, b: Val) -> Val:
		t = a.ty
		assert isinstance(t, TDict)
		if a.is_conc() and not a.conc:
			return b
		if b.is_conc() and not b.conc:
			return a
		m = self.eng.fresh(t, 'merged')
		k = z3.Const(fresh_name('k'), t.key.sort())
		self.st.assume(z3.ForAll([k], z3.And(
			z3.Select(t.dom(m.term), k) == z3.Or(z3.Select(t.dom(a.term), k), z3.Select(t.dom(b.term), k)),
			z3.Select(t.vals(m.term), k) == z3.If(z3.Select(t.dom(b.term), k), z3.Select(t.vals(b.term), k), z3.Select(t.vals(a.term), k)))))
		return m

	def e_DictComp(self, n: ast.DictComp) -> Val:
		# supported form: {k: v for k, v in d.items() if cond(k, v)} -- a filtered copy
		g = n.generators[0]
		if len(n.generators) == 1 and isinstance(g.iter, ast.Call) and isinstance(g.iter.func, ast.Attribute) and g.iter.func.attr == 'items' and isinstance(g.target, ast.Tuple) and len(g.target.elts) == 2 \
			and all(isinstance(e, ast.Name) for e in g.target.elts) and isinstance(n.key, ast.Name) and isinstance(n.value, ast.Name) \
			and n.key.id == g.target.elts[0].id and n.value.id == g.target.elts[1].id:  # type: ignore[attr-defined]
			d = self.eval(g.iter.func.value)
			t = d.ty
			if isinstance(t, TDict):
				kname, vname = n.key.id, n.value.id
				k = z3.Const(fresh_name('k'), t.key.sort())
				sub_env = dict(self.st.env)
				sub_env[kname] = Val(t.key, k)
				sub_env[vname] = Val(t.val, z3.Select(t.vals(d.term), k))
				sub = Ev(self.eng, self.fn, State(sub_env, list(self.st.pc)), self.oracle, 'spec', self.old)
				cond = z3.And(*[sub.truth(c) for c in g.ifs]) if g.ifs else z3.BoolVal(True)
				m = self.eng.fresh(t, 'dcomp')
				self.st.assume(z3.ForAll([k], z3.And(
					z3.Select(t.dom(m.term), k) == z3.And(z3.Select(t.dom(d.term), k), cond),
					z3.Select(t.vals(m.term), k) == z3.Select(t.vals(d.term), k))))
				return m
		raise EngineError(f'unsupported dict comprehension {ast.unparse(n)[:80]}')

	def e_ListComp(self, n: ast.ListComp) -> Val:
		return self.comprehension(n.elt, n.generators)

	def e_GeneratorExp(self, n: ast.GeneratorExp) -> Val:
		return self.comprehension(n.elt, n.generators)

	def comprehension(self, elt: ast.expr, gens: list[ast.comprehension]) -> Val:
		if len(gens) != 1:
			raise EngineError('nested comprehension')
		g = gens[0]
		it = self.iter_values(g.iter)
		if it.items is not None:
			out: list[tuple[Any, Val]] = []
			for cond0, item in it.items:
				env = dict(self.st.env)
				self.bind_target(g.target, item, env)
				sub = Ev(self.eng, self.fn, State(env, self.st.pc), self.oracle, self.mode, self.old, list(self.guards))
				sub.rw = self.rw
				conds = [] if cond0 is None else [cond0]
				skip = False
				for c in g.ifs:
					ct = simp(sub.truth(c))
					if z3.is_false(ct):
						skip = True
						break
					if not z3.is_true(ct):
						conds.append(ct)
				if skip:
					continue
				v = sub.eval(elt)
				out.append((z3.And(*conds) if len(conds) > 1 else (conds[0] if conds else None), v))
			if not out:
				raise_ty = getattr(elt, '_ety', None)
				if raise_ty is None:
					# element type from the iterable when elt is the loop variable
					ety = it.ty.elem if isinstance(it.ty, TList) else None
					if ety is None:
						raise EngineError('empty comprehension of unknown type')
					return py_to_val([], TList(ety))
			ety2 = out[0][1].ty
			lty = TList(ety2)  # type: ignore[arg-type]
			parts = [z3.Unit(v.term) if c is None else z3.If(c, z3.Unit(v.term), z3.Empty(lty.sort())) for c, v in out]
			conc = [v.conc for c, v in out] if all(c is None and v.is_conc() for c, v in out) else NOCONC
			return Val(lty, parts[0] if len(parts) == 1 else z3.Concat(*parts), conc, out)
		# symbolic sequence: a recursive definition per comprehension site
		assert isinstance(it.ty, TList)
		free = sorted({x.id for x in ast.walk(ast.Module(body=[ast.Expr(elt)] + [ast.Expr(c) for c in g.ifs], type_ignores=[])) if isinstance(x, ast.Name)} - {t.id for t in ast.walk(g.target) if isinstance(t, ast.Name)})
		caps = [(x, self.st.env[x]) for x in free if x in self.st.env and self.st.env[x].ty is not None and self.st.env[x].term is not None and not self.st.env[x].is_conc()]
		# canonical parameter names: two comprehensions with the same element/filter structure (up to the bound variable's name)
		# denote the same recursive function, so code and contract text meet in one symbol
		cap_consts = [z3.Const(f'comp_cap{i}_{v.ty.sort().name()}'.replace(' ', '_'), v.ty.sort()) for i, (x, v) in enumerate(caps)]  # type: ignore[union-attr]
		seqc = z3.Const(f'comp_seq_{it.ty.sort().name()}'.replace(' ', '_').replace('(', '').replace(')', ''), it.ty.sort())
		nn = z3.Const('comp_n', z3.IntSort())
		env = dict(self.st.env)
		for (x, v), c in zip(caps, cap_consts):
			env[x] = Val(v.ty, c)
		self.bind_target(g.target, Val(it.ty.elem, seqc[nn - 1]), env)
		sub = Ev(self.eng, self.fn, State(env, []), self.oracle, 'spec', self.old)
		sub.rw = self.rw
		cond = z3.And(*[sub.truth(c) for c in g.ifs]) if g.ifs else None
		v = sub.eval(elt)
		lty = TList(v.ty)  # type: ignore[arg-type]
		unit = z3.Unit(v.term)
		step = unit if cond is None else z3.If(cond, unit, z3.Empty(lty.sort()))
		import hashlib as _hl
		ckey = 'rf_comp_' + _hl.md5((str(it.ty) + '|' + str(lty) + '|' + step.sexpr() + '|' + ','.join(str(c.sort()) for c in cap_consts)).encode()).hexdigest()[:12]
		f = self.eng.rec_funcs.get(ckey)
		if f is None:
			f = z3.RecFunction(ckey, it.ty.sort(), z3.IntSort(), *[c.sort() for c in cap_consts], lty.sort())
			z3.RecAddDefinition(f, [seqc, nn] + cap_consts, z3.If(nn <= 0, z3.Empty(lty.sort()), z3.Concat(f(seqc, nn - 1, *cap_consts), step)))
			self.eng.rec_funcs[ckey] = f
		res = f(it.term, z3.Length(it.term), *[v.term for _, v in caps])
		if cond is None and self.mode == 'code' or (cond is None and self.rw):
			# consequences of the recursive definition (provable by induction on n), made available to the solver:
			# a map keeps the length and is element-wise the element expression
			qi = z3.Const(fresh_name('ci'), z3.IntSort())
			env2 = dict(self.st.env)
			self.bind_target(g.target, Val(it.ty.elem, it.term[qi]), env2)
			sub2 = Ev(self.eng, self.fn, State(env2, []), self.oracle, 'spec', self.old)
			sub2.rw = self.rw
			ve = sub2.eval(elt)
			self.st.assume(z3.Length(res) == z3.Length(it.term))
			self.st.assume(z3.ForAll([qi], z3.Implies(z3.And(0 <= qi, qi < z3.Length(it.term)), res[qi] == ve.term)))
		return Val(lty, res)

	def iter_values(self, n: ast.expr) -> Val:
		"""The sequence of values a for/comprehension iterates over."""
		if isinstance(n, ast.Call) and isinstance(n.func, ast.Name):
			if n.func.id == 'range':
				args = [self.eval(a) for a in n.args]
				if all(a.is_conc() for a in args):
					return self.lift(list(range(*[a.conc for a in args])), TList(INT))
				raise EngineError('symbolic range() in comprehension: use a for loop with invariant')
			if n.func.id == 'enumerate':
				v = self.iter_values(n.args[0])
				if v.items is not None:
					items = []
					for i, (c, it) in enumerate(v.items):
						if c is not None:
							raise EngineError('enumerate over conditionally present items')
						tt = TTuple((INT, it.ty))  # type: ignore[arg-type]
						items.append((None, Val(tt, tt.mk(z3.IntVal(i), it.term))))
					tt0 = TTuple((INT, v.ty.elem))  # type: ignore[union-attr]
					return Val(TList(tt0), seq_of([x.term for _, x in items], TList(tt0)), items=items)
				raise EngineError('enumerate over symbolic sequence in comprehension')
			if n.func.id == 'reversed':
				v = self.iter_values(n.args[0])
				if v.items is not None:
					its = list(reversed(v.items))
					return Val(v.ty, seq_of([x.term for _, x in its], v.ty), items=its)  # type: ignore[arg-type]
				raise EngineError('reversed over symbolic sequence')
		v = self.eval(n)
		if isinstance(v.ty, TTuple):
			v = self.coerce(v, TList(v.ty.items[0]))
		if isinstance(v.ty, TStr):
			if v.is_conc():
				return self.lift(list(v.conc), TList(STR))
			raise EngineError('iteration over symbolic string')
		if not isinstance(v.ty, TList):
			raise EngineError(f'iteration over {v.ty}')
		return v

	def bind_target(self, target: ast.expr, v: Val, env: dict[str, Val]) -> None:
		if isinstance(target, ast.Name):
			env[target.id] = v
			return
		if isinstance(target, (ast.Tuple, ast.List)):
			if isinstance(v.ty, TTuple):
				if len(target.elts) != len(v.ty.items):
					raise EngineError('tuple arity mismatch')
				for i, e in enumerate(target.elts):
					self.bind_target(e, Val(v.ty.items[i], v.ty.get(v.term, i), v.conc[i] if v.is_conc() else NOCONC), env)
				return
			if isinstance(v.ty, TList):
				stars = [i for i, e in enumerate(target.elts) if isinstance(e, ast.Starred)]
				ln = z3.Length(v.term)
				if not stars:
					self.exit_if(ln != len(target.elts), 'ValueError')
					for i, e in enumerate(target.elts):
						self.bind_target(e, Val(v.ty.elem, v.term[i]), env)
					return
				s = stars[0]
				after = len(target.elts) - s - 1
				self.exit_if(ln < len(target.elts) - 1, 'ValueError')
				for i, e in enumerate(target.elts[:s]):
					self.bind_target(e, Val(v.ty.elem, v.term[i]), env)
				self.bind_target(target.elts[s].value, Val(v.ty, z3.Extract(v.term, z3.IntVal(s), ln - s - after)), env)  # type: ignore[attr-defined]
				for j, e in enumerate(target.elts[s + 1:]):
					self.bind_target(e, Val(v.ty.elem, v.term[ln - after + j]), env)
				return
		raise EngineError(f'cannot bind target {ast.unparse(target)} to {v.ty}')

	# ---------------------------------------------------------------- calls
	def e_Call(self, n: ast.Call) -> Val:
		from .calls import eval_call
		return eval_call(self, n)

	def e_Lambda(self, n: ast.Lambda) -> Val:
		return Val(None, None, n)

	def e_Starred(self, n: ast.Starred) -> Val:
		raise EngineError('starred outside call/display')

	def call_function(self, f: source.FuncSrc, args: list[Val], kwargs: dict[str, Val], recv: Val | None, recv_name: str | None, node: ast.AST | None) -> Val:
		from .calls import call_function
		return call_function(self, f, args, kwargs, recv, recv_name, node)
