"""Call semantics: builtins, str/list/dict methods, spec functions, lemmas, externals, calls by contract, inlining."""
from __future__ import annotations

import ast
from typing import Any

import z3

from . import source
from .api import REG, Contract
from .engine import (BUILTIN_EXC, Ev, FnCtx, Infeasible, Oracle, RaiseSignal, fresh_name)
from .smt import quick_unsat, simp
from .ty import (BOOL, FLOAT, INT, NONE, STR, TBool, TDict, TEnum, TFloat, TInt, TList, TNone, TOpt, TRec, TRef, TStr, TTuple,
	TUnion, Ty)
from .values import NOCONC, ClassRef, EngineError, ExcVal, FuncRef, ModuleRef, SpecRef, State, Val, py_to_val, seq_of

MAX_INLINE_DEPTH = 4


def eval_call(ev: Ev, n: ast.Call) -> Val:
	txt = ast.unparse(n)
	c = ev.fn.contract
	if c is not None and txt in c.rewrites and ev.rw:
		ev.eng.used_rewrites.add(f'{ev.fn.label}: {txt}  ~>  {c.rewrites[txt]}')
		return ev.eval(ast.parse(c.rewrites[txt], mode='eval').body)
	if c is not None and c.rewrite_patterns and ev.rw:
		import re as _re
		for pat, repl in c.rewrite_patterns.items():
			m = _re.fullmatch(pat, txt)
			if m:
				ev.eng.used_rewrites.add(f'{ev.fn.label}: {txt}  ~>  {m.expand(repl)}  (pattern)')
				return ev.eval(ast.parse(m.expand(repl), mode='eval').body)
	f = n.func
	if isinstance(f, ast.Name):
		name = f.id
		if name in ev.st.env and not isinstance(ev.st.env[name], (FuncRef, ClassRef, SpecRef)) and not (ev.mode == 'spec' and name in ('old', 'prev', 'cut')):
			raise EngineError(f'call of a value: {txt[:60]} (add a rewrite for this external call)')
		if name == 'old':
			o = ev.old or getattr(ev.fn, 'entry', None)
			if o is None:
				raise EngineError('old() outside a postcondition')
			sub = Ev(ev.eng, ev.fn, o, ev.oracle, 'spec', None, ev.guards)
			return sub.eval(n.args[0])
		if name == 'prev':
			if ev.prev is None:
				raise EngineError('prev() outside a loop body')
			sub = Ev(ev.eng, ev.fn, ev.prev, ev.oracle, 'spec', getattr(ev.fn, 'entry', None), ev.guards)
			return sub.eval(n.args[0])
		if name in ('all', 'any') and len(n.args) == 1 and isinstance(n.args[0], (ast.GeneratorExp, ast.ListComp)):
			return quantifier(ev, name, n.args[0])
		if name in BUILTIN_FUNCS and name not in ev.fn.local_funcs:
			return BUILTIN_FUNCS[name](ev, n)
		if name in REG.specs:
			return call_spec(ev, name, [ev.eval(a) for a in n.args])
		if name in REG.lemmas:
			return call_lemma(ev, name, [ev.eval(a) for a in n.args])
		if name in REG.externals:
			return call_external(ev, name, [ev.eval(a) for a in n.args])
		if name in ev.fn.local_funcs:
			return call_local(ev, name, n)
	is_super = isinstance(f, ast.Attribute) and isinstance(f.value, ast.Call) and isinstance(f.value.func, ast.Name) and f.value.func.id == 'super'
	if isinstance(f, ast.Attribute) and not is_super:
		base = ev.eval(f.value)
		bt = base.ty.inner if isinstance(base.ty, TOpt) else base.ty
		if isinstance(bt, (TStr, TList, TDict)) or (isinstance(bt, TRef) and f'{bt.rname}.{f.attr}' in REG.externals):
			return call_method(ev, base, f.attr, n, f.value)
		if isinstance(base, (ClassRef, ModuleRef)):
			callee = ev.e_Attribute(f)
		else:
			callee = ev.get_attr(base, f.attr, n)
	else:
		callee = ev.eval(f) if not is_super else None
	if callee is None:
		# super().method(...)
		assert isinstance(f, ast.Attribute)
		if ev.fn.cname is None or ev.fn.mod is None:
			raise EngineError('super() outside a class')
		for bf, bc in source.class_bases(ev.fn.mod, ev.fn.cname):
			m = source.find_method(bf, bc, f.attr)
			if m is not None:
				args, kwargs = eval_args(ev, n)
				selfv = ev.st.env['self']
				return call_function(ev, m, [selfv] + args, kwargs, recv=selfv, recv_name='self', node=n)
		raise EngineError(f'super().{f.attr} not found')
	if isinstance(callee, SpecRef):
		return call_spec(ev, callee.name, [ev.eval(a) for a in n.args])
	if isinstance(callee, ClassRef):
		return construct(ev, callee, n)
	if isinstance(callee, FuncRef):
		mod = source.load(callee.module)
		fs = mod.funcs[callee.qualname]
		args, kwargs = eval_args(ev, n)
		recv = callee.bound_self
		recv_name = None
		if isinstance(f, ast.Attribute) and isinstance(f.value, ast.Name) and recv is not None and not isinstance(recv, ClassRef):
			recv_name = f.value.id
		if recv is not None and fs.kind in ('method', 'classmethod', 'property'):
			args = [recv] + args
		return call_function(ev, fs, args, kwargs, recv=recv, recv_name=recv_name, node=n)
	if isinstance(callee, ModuleRef):
		name = callee.module
		if name in REG.externals:
			return call_external(ev, name, [ev.eval(a) for a in n.args])
		raise EngineError(f'external call {name} without declared contract')
	# method of a builtin value
	if isinstance(f, ast.Attribute):
		recv = ev.eval(f.value)
		return call_method(ev, recv, f.attr, n, f.value)
	raise EngineError(f'unsupported call {txt[:80]}')


def eval_args(ev: Ev, n: ast.Call) -> tuple[list[Val], dict[str, Val]]:
	args: list[Val] = []
	for a in n.args:
		if isinstance(a, ast.Starred):
			v = ev.eval(a.value)
			if v.items is not None and all(c is None for c, _ in v.items):
				args.extend(x for _, x in v.items)
			elif isinstance(v.ty, TTuple):
				args.extend(Val(t, v.ty.get(v.term, i)) for i, t in enumerate(v.ty.items))
			else:
				args.append(Val(v.ty, v.term, v.conc, v.items))
				args[-1]._star = True  # type: ignore[attr-defined]
		else:
			args.append(ev.eval(a))
	kwargs = {k.arg: ev.eval(k.value) for k in n.keywords if k.arg}
	return args, kwargs


# --------------------------------------------------------------------------- quantifiers (contract text)
def quantifier(ev: Ev, which: str, g: ast.GeneratorExp | ast.ListComp) -> Val:
	gen = g.generators[0]
	if len(g.generators) != 1 or not isinstance(gen.target, ast.Name):
		raise EngineError('quantifier: single name generator only')
	if ev.mode != 'spec' and not getattr(ev.fn, 'lemma_name', None):
		# in code: evaluate as a fold over the materialised list (a lemma body is specification text: quantifiers stay quantifiers)
		lst = ev.comprehension(g.elt, g.generators)
		if lst.items is not None:
			ts = [ev.truthy(v) if c is None else (z3.Implies(c, ev.truthy(v)) if which == 'all' else z3.And(c, ev.truthy(v))) for c, v in lst.items]
			return Val(BOOL, (z3.And(*ts) if which == 'all' else z3.Or(*ts)) if ts else z3.BoolVal(which == 'all'))
		raise EngineError('all/any over symbolic sequence in code')
	var = gen.target.id
	it = gen.iter
	env = dict(ev.st.env)
	if isinstance(it, ast.Call) and isinstance(it.func, ast.Name) and it.func.id == 'range':
		args = [ev.eval(a) for a in it.args]
		lo = z3.IntVal(0) if len(args) == 1 else args[0].term
		hi = args[0].term if len(args) == 1 else args[1].term
		if all(a.is_conc() for a in args) and (args[-1].conc - (0 if len(args) == 1 else args[0].conc)) <= 16:
			ts = []
			for k in range(*[a.conc for a in args]):
				env[var] = py_to_val(k)
				sub = Ev(ev.eng, ev.fn, State(env, ev.st.pc), ev.oracle, 'spec', ev.old, None, ev.prev)
				conds = [sub.truth(c) for c in gen.ifs]
				b = sub.truth(g.elt)
				ts.append((z3.Implies(z3.And(*conds), b) if conds else b) if which == 'all' else (z3.And(*conds, b) if conds else b))
			return Val(BOOL, (z3.And(*ts) if which == 'all' else z3.Or(*ts)) if ts else z3.BoolVal(which == 'all'))
		q = z3.Const(fresh_name(f'q_{var}'), z3.IntSort())
		env[var] = Val(INT, q)
		rng = z3.And(lo <= q, q < hi)
	elif isinstance(it, ast.Call) and isinstance(it.func, ast.Name) and it.func.id == 'universe':
		uty = ev.eng.tenv.parse(it.args[0].value)  # type: ignore[attr-defined]
		q = z3.Const(fresh_name(f'q_{var}'), uty.sort())  # type: ignore[union-attr]
		env[var] = Val(uty, q)
		rng = z3.BoolVal(True)
	else:
		seq = ev.eval(it)
		if isinstance(seq.ty, TList):
			q = z3.Const(fresh_name('q_i'), z3.IntSort())
			env[var] = Val(seq.ty.elem, seq.term[q])
			rng = z3.And(0 <= q, q < z3.Length(seq.term))
		else:
			raise EngineError(f'quantifier over {seq.ty}')
	sub = Ev(ev.eng, ev.fn, State(env, ev.st.pc), ev.oracle, 'spec', ev.old, list(ev.guards) + [rng], ev.prev)
	sub.bound = list(getattr(ev, 'bound', [])) + [q]  # type: ignore[attr-defined]  (a lemma used under the quantifier is used for every value of the bound variable)
	conds = [sub.truth(c) for c in gen.ifs]
	body = sub.truth(g.elt)
	if which == 'all':
		return Val(BOOL, z3.ForAll([q], z3.Implies(z3.And(rng, *conds), body)))
	return Val(BOOL, z3.Exists([q], z3.And(rng, *conds, body)))


# --------------------------------------------------------------------------- builtin functions
def b_len(ev: Ev, n: ast.Call) -> Val:
	v = ev.eval(n.args[0])
	if isinstance(v.ty, TOpt):
		v = ev.unwrap(v)
	if v.is_conc() and v.conc is None:
		return ev.eng.fresh(INT, 'len_of_none')  # only reachable under a guard that excludes None
	if v.is_conc():
		return ev.lift(len(v.conc))
	if isinstance(v.ty, (TStr, TList)):
		return Val(INT, z3.Length(v.term))
	if isinstance(v.ty, TTuple):
		return ev.lift(len(v.ty.items))
	if isinstance(v.ty, TDict):
		ev.st.assume(v.ty.size(v.term) >= 0)
		return Val(INT, v.ty.size(v.term))
	raise EngineError(f'len of {v.ty}')


def b_int(ev: Ev, n: ast.Call) -> Val:
	v = ev.eval(n.args[0])
	kw = {k.arg: ev.eval(k.value) for k in n.keywords}
	base = kw.get('base') or (ev.eval(n.args[1]) if len(n.args) > 1 else None)
	return to_int(ev, v, base)


def to_int(ev: Ev, v: Val, base: Val | None = None) -> Val:
	if isinstance(v.ty, TInt):
		return v
	if isinstance(v.ty, TBool):
		return ev.coerce(v, INT)
	if isinstance(v.ty, TFloat):
		return Val(INT, z3.Function('f2i', FLOAT.sort(), z3.IntSort())(v.term))
	if isinstance(v.ty, TStr):
		if base is not None and not (base.is_conc() and base.conc == 10):
			if not base.is_conc():
				raise EngineError('int(): symbolic base')
			ok = z3.Function('int_parsable_base', z3.StringSort(), z3.IntSort(), z3.BoolSort())(v.term, z3.IntVal(base.conc))
			ev.exit_if(z3.Not(ok), 'ValueError')
			return Val(INT, z3.Function('str_to_int_base', z3.StringSort(), z3.IntSort(), z3.IntSort())(v.term, z3.IntVal(base.conc)))
		if v.is_conc():
			try:
				return ev.lift(int(v.conc))
			except ValueError:
				ev.exit_if(z3.BoolVal(True), 'ValueError')
				raise Infeasible()
		# decimal: plain digit strings are interpreted (str.to_int); anything else (sign, blanks, underscores) goes through an uninterpreted parser
		digits = z3.InRe(v.term, z3.Plus(z3.Range('0', '9')))
		ok = z3.Function('int_parsable', z3.StringSort(), z3.BoolSort())(v.term)
		ev.st.assume(z3.Implies(digits, ok))
		ev.exit_if(z3.Not(ok), 'ValueError')
		return Val(INT, z3.If(digits, z3.StrToInt(v.term), z3.Function('str_to_int_gen', z3.StringSort(), z3.IntSort())(v.term)))
	if isinstance(v.ty, TUnion):
		return union_dispatch(ev, v, lambda x: to_int(ev, x, base))
	raise EngineError(f'int({v.ty})')


def union_dispatch(ev: Ev, v: Val, f: Any) -> Val:
	"""Apply f per alternative under its tag guard and merge with ite."""
	assert isinstance(v.ty, TUnion)
	res: Val | None = None
	saved = list(ev.guards)
	outs: list[tuple[Any, Val]] = []
	try:
		for a in v.ty.alts:
			tag = v.ty.is_a(a, v.term)
			if quick_unsat(ev.st.pc + saved + [tag], 100):
				continue
			ev.guards[:] = saved + [tag]
			outs.append((tag, f(Val(a, v.ty.proj(a, v.term)))))
	finally:
		ev.guards[:] = saved
	if not outs:
		if ev.mode == 'spec':
			a0 = v.ty.alts[0]
			return f(Val(a0, v.ty.proj(a0, v.term)))
		raise Infeasible()
	res = outs[-1][1]
	for tag, o in reversed(outs[:-1]):
		o2, r2 = ev.unify(o, res)
		res = Val(o2.ty, z3.If(tag, o2.term, r2.term))
	return res


def b_float(ev: Ev, n: ast.Call) -> Val:
	return to_float(ev, ev.eval(n.args[0]))


def to_float(ev: Ev, v: Val) -> Val:
	if isinstance(v.ty, TFloat):
		return v
	if isinstance(v.ty, (TInt, TBool)):
		return Val(FLOAT, ev.i2f(ev.coerce(v, INT).term))
	if isinstance(v.ty, TStr):
		ok = z3.Function('float_parsable', z3.StringSort(), z3.BoolSort())(v.term)
		# CPython fact (trusted): float(s) accepts only non-empty strings without quote characters
		ev.st.assume(z3.Implies(ok, z3.And(z3.Length(v.term) > 0, z3.Not(z3.Contains(v.term, z3.StringVal('"'))), z3.Not(z3.Contains(v.term, z3.StringVal("'"))))))
		ev.exit_if(z3.Not(ok), 'ValueError')
		return Val(FLOAT, z3.Function('s2f', z3.StringSort(), FLOAT.sort())(v.term))
	if isinstance(v.ty, TUnion):
		return union_dispatch(ev, v, lambda x: to_float(ev, x))
	raise EngineError(f'float({v.ty})')


def b_str(ev: Ev, n: ast.Call) -> Val:
	return ev.to_str(ev.eval(n.args[0]))


def b_bool(ev: Ev, n: ast.Call) -> Val:
	return Val(BOOL, ev.truth(n.args[0]))


def b_isinstance(ev: Ev, n: ast.Call) -> Val:
	v = ev.eval(n.args[0])
	names: list[str] = []
	a1 = n.args[1]
	if isinstance(a1, ast.Name) and a1.id in ev.eng.tenv.aliases and a1.id not in ev.st.env:
		cls = ClassRef(None, cname=a1.id, module='builtins')
	else:
		cls = ev.eval(a1)
	if isinstance(cls, ClassRef):
		names = [cls.cname]
	elif cls.ty is None and isinstance(cls.conc, tuple):
		names = [c.cname for c in cls.conc]
	else:
		raise EngineError(f'isinstance second argument {ast.unparse(n.args[1])}')
	pyty = {'int': INT, 'str': STR, 'float': FLOAT, 'bool': BOOL}
	for nm in names:
		if nm not in pyty and nm in ev.eng.tenv.aliases:
			pyty[nm] = ev.eng.tenv.aliases[nm]
	if isinstance(v.ty, TUnion):
		ts = [v.ty.is_a(pyty[nm], v.term) for nm in names if nm in pyty and pyty[nm] in v.ty.alts]
		return Val(BOOL, z3.Or(*ts) if ts else z3.BoolVal(False))
	if isinstance(v.ty, TOpt):
		inner = v.ty.inner
		hit = any(pyty.get(nm) == inner or (isinstance(inner, TRec) and inner.rname.split('.')[-1] == nm.split('.')[-1]) for nm in names)
		return Val(BOOL, v.ty.is_some(v.term) if hit else z3.BoolVal(False))
	for nm in names:
		if pyty.get(nm) == v.ty or (nm == 'int' and isinstance(v.ty, TBool)):
			return ev.lift(True)
		if isinstance(v.ty, TRec) and v.ty.rname.split('.')[-1] == nm.split('.')[-1]:
			return ev.lift(True)
		if isinstance(v.ty, TList) and nm == 'list':
			return ev.lift(True)
		if isinstance(v.ty, TDict) and nm == 'dict':
			return ev.lift(True)
	if isinstance(v.ty, (TInt, TStr, TFloat, TBool, TList, TDict, TNone)):
		return ev.lift(False)
	raise EngineError(f'isinstance({v.ty}, {names})')


def b_minmax(which: str):
	def f(ev: Ev, n: ast.Call) -> Val:
		vals = [ev.eval(a) for a in n.args]
		if len(vals) == 1:
			raise EngineError('min/max of a sequence')
		if all(v.is_conc() for v in vals):
			return ev.lift((min if which == 'min' else max)(*[v.conc for v in vals]))
		res = vals[0]
		for v in vals[1:]:
			c = (v.term < res.term) if which == 'min' else (v.term > res.term)
			res = Val(INT, z3.If(c, v.term, res.term))
		return res
	return f


def b_cast(ev: Ev, n: ast.Call) -> Val:
	return ev.eval(n.args[1])


def b_implies(ev: Ev, n: ast.Call) -> Val:
	a = ev.truth(n.args[0])
	saved = list(ev.guards)
	if quick_unsat(ev.st.pc + saved + [a], 60):
		return Val(BOOL, z3.BoolVal(True))  # antecedent impossible on this path: the consequent need not even be well-typed here
	ev.guards.append(a)
	try:
		b = ev.truth(n.args[1])
	finally:
		ev.guards[:] = saved
	return Val(BOOL, z3.Implies(a, b))


def b_list(ev: Ev, n: ast.Call) -> Val:
	if not n.args:
		raise EngineError('list() without annotation')
	v = ev.iter_values(n.args[0])
	return v


def b_callable(ev: Ev, n: ast.Call) -> Val:
	v = ev.eval(n.args[0])
	if isinstance(v.ty, TUnion):
		ts = [v.ty.is_a(a, v.term) for a in v.ty.alts if isinstance(a, TRef)]
		return Val(BOOL, z3.Or(*ts) if ts else z3.BoolVal(False))
	if isinstance(v.ty, TStr):
		return ev.lift(False)
	if isinstance(v.ty, TRef):
		return ev.lift(True)
	raise EngineError(f'callable({v.ty})')


def b_sorted(ev: Ev, n: ast.Call) -> Val:
	raise EngineError('sorted(): declare a rewrite with an assumed contract')


def b_type(ev: Ev, n: ast.Call) -> Val:
	raise EngineError('type(): declare a rewrite')


def b_abs(ev: Ev, n: ast.Call) -> Val:
	v = ev.eval(n.args[0])
	return Val(INT, z3.If(v.term < 0, -v.term, v.term))


def b_init(ev: Ev, n: ast.Call) -> Val:
	v = ev.eval(n.args[0])
	if not isinstance(v.ty, (TList, TStr)):
		raise EngineError('init() of non-sequence')
	return Val(v.ty, z3.Extract(v.term, 0, z3.Length(v.term) - 1) if isinstance(v.ty, TList) else z3.SubString(v.term, 0, z3.Length(v.term) - 1))


def b_last(ev: Ev, n: ast.Call) -> Val:
	v = ev.eval(n.args[0])
	if isinstance(v.ty, TList):
		return Val(v.ty.elem, v.term[z3.Length(v.term) - 1])
	if isinstance(v.ty, TStr):
		return Val(STR, z3.SubString(v.term, z3.Length(v.term) - 1, 1))
	raise EngineError('last() of non-sequence')


def b_fzero(ev: Ev, n: ast.Call) -> Val:
	v = to_float(ev, ev.eval(n.args[0]))
	return Val(BOOL, z3.Function('fiszero', FLOAT.sort(), z3.BoolSort())(v.term))


def b_cut(ev: Ev, n: ast.Call) -> Val:
	"""cut(P) in a hint: P becomes an obligation of its own at this point and is then available as a fact (an intermediate assertion)."""
	t = ev.truth(n.args[0])
	g = z3.And(*ev.guards) if ev.guards else None
	ev.eng.oblige(ev.fn, 'cut', ev.st, z3.Implies(g, t) if g is not None else t, ast.unparse(n.args[0]))
	ev.st.assume(z3.Implies(g, t) if g is not None else t)
	return Val(BOOL, z3.BoolVal(True))


def b_tuple(ev: Ev, n: ast.Call) -> Val:
	return ev.iter_values(n.args[0])


BUILTIN_FUNCS = {
	'len': b_len, 'int': b_int, 'float': b_float, 'str': b_str, 'bool': b_bool, 'isinstance': b_isinstance,
	'min': b_minmax('min'), 'max': b_minmax('max'), 'cast': b_cast, 'implies': b_implies, 'list': b_list,
	'callable': b_callable, 'init': b_init, 'last': b_last, 'fzero': b_fzero, 'cut': b_cut, 'sorted': b_sorted, 'type': b_type, 'abs': b_abs, 'tuple': b_tuple,
}


# --------------------------------------------------------------------------- methods of builtin values
def call_method(ev: Ev, recv: Val, name: str, n: ast.Call, recv_node: ast.expr) -> Val:
	if isinstance(recv.ty, TOpt):
		recv = ev.unwrap(recv)
	args = [ev.eval(a) for a in n.args if not isinstance(a, ast.Starred)]
	t = recv.ty
	if recv.is_conc() and all(a.is_conc() for a in args) and isinstance(t, TStr) and name in ('find', 'rfind', 'count', 'startswith', 'endswith', 'split', 'strip', 'lstrip', 'rstrip', 'join', 'replace', 'lower', 'upper', 'index', 'isdigit', 'format') and not n.keywords:
		try:
			r = getattr(recv.conc, name)(*[a.conc for a in args])
			return ev.lift(r, TList(STR) if isinstance(r, list) else None)
		except ValueError:
			ev.exit_if(z3.BoolVal(True), 'ValueError')
			raise Infeasible()
	if isinstance(t, TStr):
		return str_method(ev, recv, name, args, n)
	if isinstance(t, TList):
		return list_method(ev, recv, name, args, n, recv_node)
	if isinstance(t, TDict):
		return dict_method(ev, recv, name, args, n, recv_node)
	if isinstance(t, TRef):
		key = f'{t.rname}.{name}'
		if key in REG.externals:
			return call_external(ev, key, [recv] + args)
		raise EngineError(f'method {name} of opaque {t.rname}: declare external "{key}"')
	raise EngineError(f'method {name} on {t} in {ev.fn.label}')


def str_method(ev: Ev, s: Val, name: str, args: list[Val], n: ast.Call) -> Val:
	x = s.term
	ln = z3.Length(x)
	if name in ('find', 'index'):
		needle = ev.coerce(args[0], STR)
		start = z3.IntVal(0)
		if len(args) > 1:
			i = ev.norm_index(args[1], ln)
			start = z3.If(i < 0, 0, i)
		hay = x
		if len(args) > 2:
			j = ev.norm_index(args[2], ln)
			end = z3.If(j < 0, 0, z3.If(j > ln, ln, j))
			hay = z3.SubString(x, 0, end)
		r = z3.IndexOf(hay, needle.term, start)
		if name == 'index':
			ev.exit_if(r < 0, 'ValueError')
		return Val(INT, r)
	if name == 'rfind':
		needle = ev.coerce(args[0], STR)
		lo = z3.IntVal(0)
		hi = ln
		if len(args) > 1:
			i = ev.norm_index(args[1], ln)
			lo = i if ev.known(z3.And(i >= 0, i <= ln)) else z3.If(i < 0, 0, z3.If(i > ln, ln, i))
		if len(args) > 2:
			j = ev.norm_index(args[2], ln)
			hi = j if ev.known(z3.And(j >= 0, j <= ln)) else z3.If(j < 0, 0, z3.If(j > ln, ln, j))
		# last occurrence lying inside [lo, hi): recursion on the end position (deterministic; the same term in code and contracts)
		f = ev.rec('rf_rfind', [STR, STR, INT, INT], INT, lambda h, p, a, b, me: z3.If(b - z3.Length(p) < a, -1,
			z3.If(z3.SubString(h, b - z3.Length(p), z3.Length(p)) == p, b - z3.Length(p), me(h, p, a, b - 1))))
		return Val(INT, f(x, needle.term, lo, hi))
	if name in ('startswith', 'endswith'):
		p = ev.coerce(args[0], STR)
		if isinstance(args[0].ty, TTuple) or isinstance(args[0].ty, TList):
			raise EngineError(f'str.{name} with a tuple of prefixes')
		sub = x
		if len(args) >= 2:
			# s.startswith(p, start[, end]) looks at the slice s[start:end] (indices clipped like a slice)
			i = ev.norm_index(args[1], ln)
			lo = z3.If(i < 0, 0, z3.If(i > ln, ln, i))
			hi = ln
			if len(args) >= 3:
				j = ev.norm_index(args[2], ln)
				hi = z3.If(j < 0, 0, z3.If(j > ln, ln, j))
			sub = z3.SubString(x, lo, z3.If(hi > lo, hi - lo, 0))
			if len(args) >= 2:
				# Python: a start beyond the end never matches, not even the empty prefix
				beyond = i > ln
				r = z3.PrefixOf(p.term, sub) if name == 'startswith' else z3.SuffixOf(p.term, sub)
				return Val(BOOL, z3.And(z3.Not(beyond), r))
		return Val(BOOL, z3.PrefixOf(p.term, sub) if name == 'startswith' else z3.SuffixOf(p.term, sub))
	if name == 'count' and len(args) == 3:
		needle = ev.coerce(args[0], STR)
		i = ev.norm_index(args[1], ln)
		lo = i if ev.known(z3.And(i >= 0, i <= ln)) else z3.If(i < 0, 0, z3.If(i > ln, ln, i))
		j = ev.norm_index(args[2], ln)
		hi = j if ev.known(z3.And(j >= 0, j <= ln)) else z3.If(j < 0, 0, z3.If(j > ln, ln, j))
		if needle.is_conc() and len(needle.conc) != 1:
			raise EngineError('count(x, lo, hi) is modelled for single-character needles')
		# occurrences of one character in [lo, hi): recursion on the end position
		f = ev.rec('rf_countc', [STR, STR, INT, INT], INT, lambda h, c, a, b, me: z3.If(b <= a, 0, me(h, c, a, b - 1) + z3.If(z3.SubString(h, b - 1, 1) == c, 1, 0)))
		return Val(INT, f(x, needle.term, lo, hi))
	if name == 'count':
		needle = ev.coerce(args[0], STR)
		f = ev.rec('rf_count', [STR, STR], INT, lambda a, b, me: z3.If(z3.Or(z3.IndexOf(a, b, 0) < 0, z3.Length(b) == 0), 0, 1 + me(z3.SubString(a, z3.IndexOf(a, b, 0) + z3.Length(b), z3.Length(a) - (z3.IndexOf(a, b, 0) + z3.Length(b))), b)))
		return Val(INT, f(x, needle.term))
	if name == 'split':
		if not args:
			raise EngineError('split() on whitespace')
		sep = ev.coerce(args[0], STR)
		ev.exit_if(z3.Length(sep.term) == 0, 'ValueError')
		return Val(TList(STR), split_fn(ev)(x, sep.term))
	if name in ('strip', 'lstrip', 'rstrip'):
		chars = ev.coerce(args[0], STR) if args else ev.lift(' \t\n\r\x0b\x0c')
		# deterministic recursive definitions (the same term in code and in contract text)
		lf = ev.rec('rf_lstrip', [STR, STR], STR, lambda a, cs, me: z3.If(z3.And(z3.Length(a) > 0, z3.Contains(cs, z3.SubString(a, 0, 1))), me(z3.SubString(a, 1, z3.Length(a) - 1), cs), a))
		rf = ev.rec('rf_rstrip', [STR, STR], STR, lambda a, cs, me: z3.If(z3.And(z3.Length(a) > 0, z3.Contains(cs, z3.SubString(a, z3.Length(a) - 1, 1))), me(z3.SubString(a, 0, z3.Length(a) - 1), cs), a))
		r = x
		if name != 'rstrip':
			r = lf(r, chars.term)
		if name != 'lstrip':
			r = rf(r, chars.term)
		return Val(STR, r)
	if name == 'join':
		lst = args[0] if args else None
		if lst is None:
			raise EngineError('join(*args)')
		if isinstance(lst.ty, TTuple):
			lst = ev.coerce(lst, TList(STR))
		if lst.items is not None:
			if all(c is None for c, _ in lst.items):
				parts: list[Any] = []
				for i, (_, it) in enumerate(lst.items):
					if i:
						parts.append(x)
					parts.append(it.term)
				if not parts:
					return ev.lift('')
				return Val(STR, parts[0] if len(parts) == 1 else z3.Concat(*parts))
			if s.is_conc() and s.conc == '':
				parts = [it.term if c is None else z3.If(c, it.term, z3.StringVal('')) for c, it in lst.items]
				return Val(STR, parts[0] if len(parts) == 1 else z3.Concat(*parts))
		return Val(STR, join_fn(ev)(x, lst.term))
	if name == 'replace':
		a, b = ev.coerce(args[0], STR), ev.coerce(args[1], STR)
		f = ev.rec('rf_replace_all', [STR, STR, STR], STR, lambda h, p, q, me: z3.If(z3.Or(z3.IndexOf(h, p, 0) < 0, z3.Length(p) == 0), h,
			z3.Concat(z3.SubString(h, 0, z3.IndexOf(h, p, 0)), q, me(z3.SubString(h, z3.IndexOf(h, p, 0) + z3.Length(p), z3.Length(h)), p, q))))
		return Val(STR, f(x, a.term, b.term))
	if name == 'isdigit':
		return Val(BOOL, z3.InRe(x, z3.Plus(z3.Range('0', '9'))))
	if name in ('encode', 'decode'):
		return s  # bytes are modelled as text
	raise EngineError(f'str.{name} not modelled')


def split_fn(ev: Ev):
	S = TList(STR)
	return ev.rec('rf_split', [STR, STR], S, lambda a, b, me: z3.If(z3.Or(z3.IndexOf(a, b, 0) < 0, z3.Length(b) == 0), z3.Unit(a),
		z3.Concat(z3.Unit(z3.SubString(a, 0, z3.IndexOf(a, b, 0))), me(z3.SubString(a, z3.IndexOf(a, b, 0) + z3.Length(b), z3.Length(a) - (z3.IndexOf(a, b, 0) + z3.Length(b))), b))))


def join_fn(ev: Ev):
	"""sep.join(xs), by recursion on the tail (matches the shape of rf_split)."""
	S = TList(STR)
	return ev.rec('rf_join', [STR, S], STR, lambda sep, xs, me: z3.If(z3.Length(xs) <= 0, z3.StringVal(''), z3.If(z3.Length(xs) == 1, xs[0],
		z3.Concat(xs[0], sep, me(sep, z3.Extract(xs, 1, z3.Length(xs) - 1))))))


def write_back(ev: Ev, recv_node: ast.expr, new: Val) -> None:
	from .stmts import assign_target
	assign_target(ev, recv_node, new)


def list_method(ev: Ev, lst: Val, name: str, args: list[Val], n: ast.Call, recv_node: ast.expr) -> Val:
	t = lst.ty
	assert isinstance(t, TList)
	x = lst.term
	ln = z3.Length(x)
	if name == 'append':
		v = ev.coerce(args[0], t.elem)
		items = lst.items + [(None, v)] if lst.items is not None else None
		write_back(ev, recv_node, Val(t, z3.Concat(x, z3.Unit(v.term)), items=items))
		return ev.lift(None)
	if name == 'extend':
		v = ev.coerce(args[0], t) if not isinstance(args[0].ty, TList) or args[0].ty != t else args[0]
		items = lst.items + v.items if lst.items is not None and v.items is not None else None
		write_back(ev, recv_node, Val(t, z3.Concat(x, v.term), items=items))
		return ev.lift(None)
	if name == 'pop':
		if args:
			i = ev.norm_index(args[0], ln)
			ev.exit_if(z3.Or(i < 0, i >= ln), 'IndexError')
			write_back(ev, recv_node, Val(t, z3.Concat(z3.Extract(x, 0, i), z3.Extract(x, i + 1, ln - i - 1))))
			return Val(t.elem, x[i])
		ev.exit_if(ln == 0, 'IndexError')
		if lst.items is not None and lst.items and all(c is None for c, _ in lst.items):
			its = lst.items[:-1]
			write_back(ev, recv_node, Val(t, seq_of([v.term for _, v in its], t), items=its))
			return lst.items[-1][1]
		write_back(ev, recv_node, Val(t, z3.Extract(x, 0, ln - 1)))
		return Val(t.elem, x[ln - 1])
	if name == 'insert':
		i0 = ev.norm_index(args[0], ln)
		i = z3.If(i0 < 0, 0, z3.If(i0 > ln, ln, i0))
		v = ev.coerce(args[1], t.elem)
		write_back(ev, recv_node, Val(t, z3.Concat(z3.Extract(x, 0, i), z3.Unit(v.term), z3.Extract(x, i, ln - i))))
		return ev.lift(None)
	if name == 'copy':
		return Val(t, x, lst.conc, lst.items)
	if name == 'index':
		v = ev.coerce(args[0], t.elem)
		r = z3.IndexOf(x, z3.Unit(v.term), 0)
		ev.exit_if(r < 0, 'ValueError')
		return Val(INT, r)
	if name == 'remove':
		# removes the first occurrence; ValueError when there is none
		v = ev.coerce(args[0], t.elem)
		r = z3.IndexOf(x, z3.Unit(v.term), 0)
		ev.exit_if(r < 0, 'ValueError')
		write_back(ev, recv_node, Val(t, z3.Concat(z3.Extract(x, 0, r), z3.Extract(x, r + 1, ln - r - 1))))
		return ev.lift(None)
	if name == 'clear':
		write_back(ev, recv_node, py_to_val([], t))
		return ev.lift(None)
	if name == 'count':
		raise EngineError('list.count not modelled')
	raise EngineError(f'list.{name} not modelled')


def dict_method(ev: Ev, d: Val, name: str, args: list[Val], n: ast.Call, recv_node: ast.expr) -> Val:
	t = d.ty
	assert isinstance(t, TDict)
	if name == 'copy':
		return d
	if name == 'get':
		k = ev.coerce(args[0], t.key)
		present = z3.Select(t.dom(d.term), k.term)
		val = z3.Select(t.vals(d.term), k.term)
		if len(args) > 1:
			dflt = ev.coerce(args[1], t.val)
			return Val(t.val, z3.If(present, val, dflt.term))
		ot = TOpt(t.val)
		return Val(ot, z3.If(present, ot.some(val), ot.none()))
	if name in ('update',):
		other = ev.coerce(args[0], t)
		write_back(ev, recv_node, ev.dict_merge(d, other))
		return ev.lift(None)
	if name == 'pop':
		k = ev.coerce(args[0], t.key)
		present = z3.Select(t.dom(d.term), k.term)
		if len(args) == 1:
			ev.exit_if(z3.Not(present), 'KeyError')
		write_back(ev, recv_node, Val(t, t.mk(z3.Store(t.dom(d.term), k.term, z3.BoolVal(False)), t.vals(d.term), t.size(d.term) - z3.If(present, 1, 0))))
		if len(args) > 1:
			if isinstance(args[1].ty, TNone) and not isinstance(t.val, (TOpt, TNone)):
				# d.pop(k, None): the result is the stored value or None
				ot = TOpt(t.val)
				return Val(ot, z3.If(present, ot.some(z3.Select(t.vals(d.term), k.term)), ot.none()))
			dflt = ev.coerce(args[1], t.val)
			return Val(t.val, z3.If(present, z3.Select(t.vals(d.term), k.term), dflt.term))
		return Val(t.val, z3.Select(t.vals(d.term), k.term))
	raise EngineError(f'dict.{name} not modelled (iteration order is not part of the dict model)')


# --------------------------------------------------------------------------- constructors
def construct(ev: Ev, cref: ClassRef, n: ast.Call) -> Val:
	name = cref.cname
	if cref.module == 'builtins':
		if name in BUILTIN_EXC:
			args = [ev.eval(a) for a in n.args]
			return ExcVal(None, cname=name, args=args)
		if name in BUILTIN_FUNCS:
			return BUILTIN_FUNCS[name](ev, n)
		raise EngineError(f'constructor {name}')
	if name in ev.eng.exc_table or ev.eng.exc_subclass(name, 'Exception') and name in ev.eng.extra_exc:
		args = []
		for a in n.args:
			try:
				args.append(ev.eval(a))
			except EngineError:
				pass
		return ExcVal(None, cname=name, args=args)
	# Enum classes are modelled by their values: Enum(value) is the value
	cmod = source.load(cref.module)
	ccls = cmod.classes.get(name)
	if ccls is not None and any(ast.unparse(b) in ('Enum', 'IntEnum', 'enum.Enum') for b in ccls.bases) and len(n.args) == 1:
		return ev.eval(n.args[0])
	# record classes
	for rn, rec in REG.records.items():
		if rec.source and rec.source[1] == name and rec.source[0] == cref.module:
			rty = ev.eng.tenv.parse(rn)
			assert isinstance(rty, TRec)
			init = source.find_method(cref.module, name, '__init__')
			if init is None:
				# NamedTuple-style class: positional fields in declaration order
				vals = [ev.eval(a) for a in n.args]
				if len(vals) != len(rty.fields):
					raise EngineError(f'{name}(...): expected {len(rty.fields)} fields')
				return Val(rty, rty.mk(*[ev.coerce(v, t).term for v, (_, t) in zip(vals, rty.fields)]))
			args, kwargs = eval_args(ev, n)
			blank = ev.eng.fresh(rty, 'new_' + name.split('.')[-1])
			out = call_function(ev, init, [blank] + args, kwargs, recv=blank, recv_name=None, node=n, want_self=True)
			return out
	if name in ev.eng.tenv.aliases and isinstance(ev.eng.tenv.aliases[name], TEnum):
		raise EngineError('enum call')
	raise EngineError(f'constructor of {name}: declare a record')


# --------------------------------------------------------------------------- spec functions, lemmas, externals
def call_spec(ev: Ev, name: str, args: list[Val]) -> Val:
	if name in REG.externals and name not in REG.specs:
		return call_external(ev, name, args)
	if name in REG.lemmas:
		return call_lemma(ev, name, args)
	sp = REG.specs[name]
	params = [a.arg for a in sp.node.args.args]
	ptys = [ev.eng.tenv.parse(a.annotation) for a in sp.node.args.args]
	rty = ev.eng.tenv.parse(sp.node.returns)
	if len(args) != len(params):
		raise EngineError(f'spec {name}: arity')
	args = [ev.coerce(a, t) for a, t in zip(args, ptys)]
	if not sp.recursive and not sp.opaque:
		env = {p: a for p, a in zip(params, args)}
		return ev.coerce(spec_body(ev, sp.node.body, env, rty), rty)
	key = f'rf_spec_{name}'
	if key not in ev.eng.rec_funcs:
		gen = ev.eng.__dict__.setdefault('rec_gen', {}).get(key, 0)
		zname = key if gen == 0 else f'{key}_r{gen}'
		f = z3.RecFunction(zname, *[t.sort() for t in ptys], rty.sort())  # type: ignore[union-attr]
		ev.eng.rec_funcs[key] = f
		consts = [z3.Const(f'{zname}_{p}', t.sort()) for p, t in zip(params, ptys)]  # type: ignore[union-attr]
		env = {p: Val(t, c) for p, t, c in zip(params, ptys, consts)}
		try:
			body = ev.coerce(spec_body(Ev(ev.eng, FnCtx.synthetic(ev.eng, f'spec:{name}'), State(), Oracle([]), 'spec'), sp.node.body, env, rty), rty)
		except Exception:
			del ev.eng.rec_funcs[key]  # never leave a declared-but-undefined recursive function behind
			ev.eng.rec_gen[key] = gen + 1
			raise
		z3.RecAddDefinition(f, consts, body.term)
		from .smt import HEAVY_FUNCS, _is_light
		if not _is_light(body.term):
			HEAVY_FUNCS.add(f.name())  # a recursive definition with quantifiers inside: the in-process feasibility probe must not unfold it
	f = ev.eng.rec_funcs[key]
	return Val(rty, f(*[a.term for a in args]))


def spec_body(ev: Ev, body: list[ast.stmt], env: dict[str, Val], rty: Ty | None = None) -> Val:
	"""if/return/let only; returns the value as a nested ite."""
	env = dict(env)
	for i, st in enumerate(body):
		if isinstance(st, ast.Expr) and isinstance(st.value, ast.Constant):
			continue
		sub = Ev(ev.eng, ev.fn, State(env, ev.st.pc), ev.oracle, 'spec', None, list(ev.guards))
		if isinstance(st, ast.Return):
			assert st.value is not None
			from .stmts import eval_typed
			return eval_typed(sub, st.value, rty)
		if isinstance(st, ast.Assign) and len(st.targets) == 1:
			sub.bind_target(st.targets[0], sub.eval(st.value), env)
			continue
		if isinstance(st, ast.AnnAssign) and st.value is not None and isinstance(st.target, ast.Name):
			env[st.target.id] = sub.coerce(sub.eval(st.value), ev.eng.tenv.parse(st.annotation))
			continue
		if isinstance(st, ast.If):
			c = sub.truth(st.test)
			rest = body[i + 1:]
			saved_g = list(ev.guards)
			try:
				ev.guards[:] = saved_g + [c]
				a = spec_body(ev, st.body + rest, env, rty)
				ev.guards[:] = saved_g + [z3.Not(c)]
				b = spec_body(ev, (st.orelse or []) + rest, env, rty)
			finally:
				ev.guards[:] = saved_g
			cs = simp(c)
			if z3.is_true(cs):
				return a
			if z3.is_false(cs):
				return b
			a, b = sub.unify(a, b)
			return Val(a.ty, z3.If(c, a.term, b.term))
		raise EngineError(f'spec body statement {type(st).__name__}')
	raise EngineError('spec function without return')


def call_external(ev: Ev, name: str, args: list[Val]) -> Val:
	e = REG.externals[name]
	ev.eng.use_external(name)
	f = ev.eng.ext_func(name)
	ptys = [ev.eng.tenv.parse(t) for _, t in e.params]
	args = [ev.coerce(a, t) for a, t in zip(args, ptys)]
	if len(args) != len(ptys):
		raise EngineError(f'external {name}: arity {len(args)} != {len(ptys)}')
	rty = ev.eng.tenv.parse(e.ret)
	if ev.mode == 'code':
		env = {p: a for (p, _), a in zip(e.params, args)}
		for exc, cond in e.raises.items():
			if cond is None:
				b = z3.Const(fresh_name(f'may_{exc}'), z3.BoolSort())
				ev.exit_if(b, exc, any_subclass=exc in ('Exception', 'BaseException'))  # "may raise anything": any subclass
			else:
				sub = Ev(ev.eng, ev.fn, State(env, ev.st.pc), ev.oracle, 'spec')
				ev.exit_if(sub.truth(ast.parse(cond, mode='eval').body), exc)
	return Val(rty, f(*[a.term for a in args]))


def call_lemma(ev: Ev, name: str, args: list[Val]) -> Val:
	"""Use of a lemma: its precondition is an obligation here, its postcondition is assumed."""
	lm = REG.lemmas[name]
	params = [a.arg for a in lm.node.args.args]
	ptys = [ev.eng.tenv.parse(a.annotation) for a in lm.node.args.args]
	args = [ev.coerce(a, t) for a, t in zip(args, ptys)]
	env = {p: a for p, a in zip(params, args)}
	sub = Ev(ev.eng, ev.fn, State(env, ev.st.pc), ev.oracle, 'spec')
	g = z3.And(*ev.guards) if ev.guards else None
	for r in lm.requires:
		t = sub.truth(ast.parse(r, mode='eval').body)
		ev.eng.oblige(ev.fn, f'lemma-pre:{name}', ev.st, z3.Implies(g, t) if g is not None else t, r)
	# recursive use inside its own proof: the measure must decrease
	cur = getattr(ev.fn, 'lemma_name', None)
	if cur == name:
		if lm.decreases is None:
			raise EngineError(f'recursive lemma {name} without decreases')
		m_new = sub.eval(ast.parse(lm.decreases, mode='eval').body).term
		m_old = ev.fn.lemma_measure  # type: ignore[attr-defined]
		vt = z3.And(m_new >= 0, m_new < m_old)
		ev.eng.oblige(ev.fn, f'lemma-variant:{name}', ev.st, z3.Implies(g, vt) if g is not None else vt, lm.decreases)
	bound = list(getattr(ev, 'bound', []))
	for e in lm.ensures:
		t = sub.truth(ast.parse(e, mode='eval').body)
		fact = z3.Implies(g, t) if g is not None else t
		# under `all(lemma(...) for i in ...)` the precondition was obliged for an arbitrary value of the bound variable, so the conclusion holds for all of them
		ev.st.assume(z3.ForAll(bound, fact) if bound else fact)
	return ev.lift(True)


def call_local(ev: Ev, name: str, n: ast.Call) -> Val:
	"""Nested def used as a local helper: inlined."""
	node = ev.fn.local_funcs[name]
	fs = source.FuncSrc(ev.fn.src.file if ev.fn.src else '', f'{ev.fn.src.qualname if ev.fn.src else ""}.<locals>.{name}', node, None, '', '', node.lineno, node.end_lineno or node.lineno, 'function')
	args, kwargs = eval_args(ev, n)
	return inline_call(ev, fs, args, kwargs, closure=dict(ev.st.env))


# --------------------------------------------------------------------------- repo functions: by contract or inlined
def bind_params(ev: Ev, fs: source.FuncSrc, args: list[Val], kwargs: dict[str, Val], fnctx: FnCtx) -> dict[str, Val]:
	a = fs.node.args
	names = [p.arg for p in a.posonlyargs + a.args]
	env: dict[str, Val] = {}
	pos = list(args)
	defaults = [None] * (len(names) - len(a.defaults)) + list(a.defaults)
	for nm, dflt, p in zip(names, defaults, a.posonlyargs + a.args):
		if pos:
			v = pos.pop(0)
		elif nm in kwargs:
			v = kwargs[nm]
		elif dflt is not None:
			v = Ev(ev.eng, fnctx, State(), ev.oracle, 'spec').eval(dflt)
		else:
			raise EngineError(f'missing argument {nm} calling {fs.qualname}')
		ty = None
		if p.annotation is not None and v.ty is not None:
			try:
				ty = ev.eng.ty(p.annotation, fnctx)
			except TypeError:
				ty = None
		if fnctx.contract and nm in fnctx.contract.types:
			ty = ev.eng.tenv.parse(fnctx.contract.types[nm])
		if ty is not None and v.ty is not None:
			try:
				env[nm] = ev.coerce(v, ty)
			except EngineError:
				env[nm] = v  # Python does not enforce annotations: the value keeps its own type
		else:
			env[nm] = v
	if a.vararg is not None:
		if pos and getattr(pos[0], '_star', False):
			env[a.vararg.arg] = pos[0]
		else:
			if pos:
				ety = pos[0].ty
				lty = TList(ety)  # type: ignore[arg-type]
				env[a.vararg.arg] = Val(lty, seq_of([ev.coerce(x, ety).term for x in pos], lty), items=[(None, x) for x in pos])
			else:
				ann = a.vararg.annotation
				if fnctx.contract and a.vararg.arg in fnctx.contract.types:
					ety2 = ev.eng.tenv.parse(fnctx.contract.types[a.vararg.arg]).elem  # type: ignore[union-attr]
				else:
					ety2 = ev.eng.ty(ann, fnctx) if ann is not None else STR
				env[a.vararg.arg] = py_to_val([], TList(ety2))  # type: ignore[arg-type]
		pos = []
	if pos:
		raise EngineError(f'too many arguments calling {fs.qualname}')
	for kw in a.kwonlyargs:
		i = a.kwonlyargs.index(kw)
		if kw.arg in kwargs:
			env[kw.arg] = kwargs[kw.arg]
		elif a.kw_defaults[i] is not None:
			env[kw.arg] = Ev(ev.eng, fnctx, State(), ev.oracle, 'spec').eval(a.kw_defaults[i])  # type: ignore[arg-type]
	return env


def call_function(ev: Ev, fs: source.FuncSrc, args: list[Val], kwargs: dict[str, Val], recv: Val | None, recv_name: str | None, node: ast.AST | None, want_self: bool = False) -> Val:
	ev.arg_names = {}  # type: ignore[attr-defined]
	if isinstance(node, ast.Call):
		pnames = [a.arg for a in fs.node.args.posonlyargs + fs.node.args.args]
		if recv is not None and fs.kind in ('method', 'classmethod', 'property'):
			pnames = pnames[1:]
		for pn_, an in zip(pnames, node.args):
			if isinstance(an, ast.Name):
				ev.arg_names[pn_] = an.id  # type: ignore[attr-defined]
	c = None
	if ev.fn.dyn:
		c = REG.contracts.get((fs.file, f'{fs.qualname}@{ev.fn.dyn}'))
	if c is None:
		c = REG.contracts.get((fs.file, fs.qualname))
	if ev.mode == 'spec' and (c is None or c.inline_only):
		raise EngineError(f'contract text calls code function {fs.qualname}')
	if c is not None and not c.inline_only and not c.inline_calls:
		return modular_call(ev, fs, c, args, kwargs, recv, recv_name, want_self)
	return inline_call(ev, fs, args, kwargs, recv=recv, recv_name=recv_name, want_self=want_self, contract=c if c is not None and c.inline_only else None)


def self_param(fs: source.FuncSrc) -> str | None:
	if fs.kind in ('method', 'property', 'classmethod') and fs.node.args.args:
		return fs.node.args.args[0].arg
	return None


def modular_call(ev: Ev, fs: source.FuncSrc, c: Contract, args: list[Val], kwargs: dict[str, Val], recv: Val | None, recv_name: str | None, want_self: bool) -> Val:
	callee = FnCtx(ev.eng, fs, c, ev.fn.prop, ev.fn.depth + 1)
	if ev.fn.dyn and fs.cls is not None and ev.fn.src is not None and fs.file == ev.fn.src.file:
		callee.dyn = ev.fn.dyn
	env = bind_params(ev, fs, args, kwargs, callee)
	for k, v in c.consts.items():
		env[k] = py_to_val(v)
	for g, t in c.ghost_params.items():
		ga = ev.fn.contract.ghost_args.get(f'{fs.qualname}.{g}') if ev.fn.contract is not None else None
		if ga is not None:
			# the caller's contract names the ghost argument it passes
			env[g] = ev.coerce(Ev(ev.eng, ev.fn, ev.st, ev.oracle, 'spec', getattr(ev.fn, 'entry', None), list(ev.guards)).eval(ast.parse(ga, mode='eval').body), ev.eng.tenv.parse(t))
		else:
			env[g] = ev.eng.fresh(ev.eng.tenv.parse(t), f'ghost_{g}')  # type: ignore[arg-type]
	pre = State(dict(env), ev.st.pc)
	sub = Ev(ev.eng, callee, pre, ev.oracle, 'spec')
	for k, expr in c.lets.items():
		env[k] = pre.env[k] = sub.eval(ast.parse(expr, mode='eval').body)
	line = getattr(ev, 'cur_line', 0)
	for r in c.requires:
		goal = sub.truth(ast.parse(r, mode='eval').body)
		if ev.guards:
			goal = z3.Implies(z3.And(*ev.guards), goal)
		ev.eng.oblige(ev.fn, f'pre@call:{fs.qualname}', ev.st, goal, r, line)
	# exceptional exits, decided on the pre-state; on such an exit everything `modifies` allows is unknown
	sp = self_param(fs)

	def havoc_on_exit() -> None:
		if c.modifies and sp and sp in env and isinstance(env[sp].ty, TRec) and recv_name is not None:
			ev.st.env[recv_name] = ev.eng.fresh(env[sp].ty, f'{recv_name}_after_raise')

	for exc, cond in c.raises.items():
		hook = None if exc in c.raise_unchanged else havoc_on_exit
		if cond is None:
			b = z3.Const(fresh_name(f'may_{exc.replace(".", "_")}'), z3.BoolSort())
			ev.exit_if(b, exc, hook)
		else:
			ev.exit_if(sub.truth(ast.parse(cond, mode='eval').body), exc, hook)
	# normal return: havoc what `modifies` allows, assume the postcondition
	post_env = dict(env)
	new_self: Val | None = None
	if c.modifies and sp and sp in env and isinstance(env[sp].ty, TRec):
		old_self = env[sp]
		rty = old_self.ty
		assert isinstance(rty, TRec)
		mods = set()
		for m in c.modifies:
			if m == sp:
				mods = set(rty.fnames())
				break
			if m.startswith(sp + '.'):
				fld = m[len(sp) + 1:]
				mods.add(fld if fld in rty.fnames() else source.mangle(callee.cname, fld))
		terms = []
		for f in rty.fnames():
			if f in mods:
				terms.append(z3.Const(fresh_name(f'{sp}_{f}'), rty.fty(f).sort()))
			else:
				terms.append(rty.get(old_self.term, f))
		new_self = Val(rty, rty.mk(*terms))
		post_env[sp] = new_self
	# other record-typed parameters passed by reference: havoc what `modifies` allows and write the new value back to the caller's variable
	other_new: dict[str, Val] = {}
	for m in c.modifies:
		if sp and (m == sp or m.startswith(sp + '.')):
			continue
		pn = m.split('.')[0]
		if pn in env and m == pn and isinstance(env[pn].ty, (TList, TDict)):
			# a list / dict parameter mutated in place: the caller's variable gets an unknown value constrained by the postcondition
			other_new[pn] = ev.eng.fresh(env[pn].ty, f'{pn}_after')
			continue
		if pn not in env or not isinstance(env[pn].ty, TRec):
			raise EngineError(f'modifies {m}: not a record-typed parameter')
		prty = env[pn].ty
		assert isinstance(prty, TRec)
		cur = other_new.get(pn, env[pn])
		fl = set(prty.fnames()) if m == pn else {m[len(pn) + 1:]}
		other_new[pn] = Val(prty, prty.mk(*[z3.Const(fresh_name(f'{pn}_{f}'), prty.fty(f).sort()) if f in fl else prty.get(cur.term, f) for f in prty.fnames()]))
	for pn, nv in other_new.items():
		post_env[pn] = nv
	rty2 = ev.eng.ty(c.types.get('return') or fs.node.returns, callee) if (c.types.get('return') or fs.node.returns is not None) else NONE
	if fs.node.returns is not None and ast.unparse(fs.node.returns) == 'Self' and sp and 'return' not in c.types and env[sp].ty is not None:
		rty2 = env[sp].ty
	result = ev.eng.fresh(rty2, f'ret_{fs.node.name}') if not isinstance(rty2, TNone) else ev.lift(None)  # type: ignore[arg-type]
	post_env['result'] = result
	post = State(post_env, ev.st.pc)
	sub2 = Ev(ev.eng, callee, post, ev.oracle, 'spec', old=pre)
	for e in c.ensures:
		t = sub2.truth(ast.parse(e, mode='eval').body)
		ev.st.assume(z3.Implies(z3.And(*ev.guards), t) if ev.guards else t)
	if new_self is not None:
		if recv_name is not None:
			if ev.guards:
				raise EngineError('mutating call under a guard')
			ev.st.env[recv_name] = new_self
		elif not want_self:
			raise EngineError(f'mutating method {fs.qualname} called on a non-variable receiver')
	for pn, nv in other_new.items():
		cname = getattr(ev, 'arg_names', {}).get(pn)
		if cname is None:
			raise EngineError(f'{fs.qualname} modifies its parameter {pn}: the argument must be a variable')
		if ev.guards:
			raise EngineError('mutating call under a guard')
		ev.st.env[cname] = nv
	if want_self:
		return post_env[sp] if sp else result
	return result


def inline_call(ev: Ev, fs: source.FuncSrc, args: list[Val], kwargs: dict[str, Val], recv: Val | None = None, recv_name: str | None = None, want_self: bool = False, contract: Contract | None = None, closure: dict[str, Val] | None = None) -> Val:
	from .stmts import run_function_body
	if ev.fn.depth >= MAX_INLINE_DEPTH:
		raise EngineError(f'inline depth exceeded at {fs.qualname}: give it a contract')
	callee = FnCtx(ev.eng, fs, contract, ev.fn.prop, ev.fn.depth + 1)
	if ev.fn.contract is not None and contract is None:
		# loops/rewrites/types of inlined helpers are looked up in the caller's contract too
		callee.contract = Contract(fs.file, fs.qualname, ev.fn.contract.props, rewrites=ev.fn.contract.rewrites, types={k: v for k, v in ev.fn.contract.types.items() if k != 'return'}, inline_only=True, dispatch=ev.fn.contract.dispatch)
	callee.want, callee.inputs, callee.inst = ev.fn.want, ev.fn.inputs, ev.fn.inst
	if ev.fn.dyn and fs.cls is not None and ev.fn.src is not None and fs.file == ev.fn.src.file:
		callee.dyn = ev.fn.dyn
	callee.label = ev.fn.label + '>' + fs.qualname.split('.')[-1]
	if closure is not None:
		# a nested def shares the enclosing method's class context (name mangling, dispatch, module)
		callee.cname, callee.dyn, callee.mod = ev.fn.cname, ev.fn.dyn, ev.fn.mod
	env = dict(closure or {})
	env.update(bind_params(ev, fs, args, kwargs, callee))
	ev.eng.inlined.add((fs.file, fs.qualname))
	st0 = State(env, list(ev.st.pc))
	outs = list(run_function_body(ev.eng, callee, st0))
	if not outs:
		raise Infeasible()
	k = ev.oracle.choose(len(outs)) if len(outs) > 1 else 0
	kind, payload, st = outs[k]
	sp = self_param(fs)
	# adopt path condition (and the receiver's new value); under a guard the callee only ran if the guard holds
	added = st.pc[len(ev.st.pc):]
	if ev.guards:
		g = z3.And(*ev.guards)
		if kind == 'raise':
			ev.st.pc.extend(list(ev.guards) + added)
		else:
			ev.st.pc.extend(z3.Implies(g, a) for a in added)
	else:
		ev.st.pc.extend(added)
	if kind == 'raise':
		raise RaiseSignal(payload)
	if sp and sp in st.env and recv_name is not None and isinstance(st.env[sp].ty, TRec):
		ev.st.env[recv_name] = st.env[sp]
	if want_self and sp:
		return st.env[sp]
	return payload if payload is not None else ev.lift(None)
