"""Back ends: z3 first, cvc5 for what z3 leaves open.  Queries travel as SMT-LIB text so they can be
discharged in a process pool and by two independent solvers."""
from __future__ import annotations

import os
import re
import time
from concurrent.futures import ProcessPoolExecutor
from dataclasses import dataclass, field
from typing import Any

import z3

Z3_TIMEOUT_MS = int(os.environ.get('PYVC_Z3_MS', '10000'))
Z3_FIRST_MS = int(os.environ.get('PYVC_Z3_FIRST_MS', '2500'))
CVC5_TIMEOUT_MS = int(os.environ.get('PYVC_CVC5_MS', '20000'))

_REC_FIX = re.compile(r'\(_ ((?:rf_|fold-rec-)[A-Za-z0-9_.!-]+) 0\)')


def to_smt2(assumptions: list[z3.BoolRef], goal: z3.BoolRef | None) -> str:
	"""Text of the query `assumptions /\\ not goal` (goal None: satisfiability of the assumptions)."""
	s = z3.Solver()
	for a in assumptions:
		s.add(a)
	if goal is not None:
		s.add(z3.Not(goal))
	txt = s.to_smt2()
	# z3 prints empty conjunctions / disjunctions that other solvers reject
	txt = txt.replace('(and )', 'true').replace('(or )', 'false')
	return _REC_FIX.sub(r'\1', txt)


def z3_to_py(e: z3.ExprRef) -> Any:
	"""Model value -> plain Python data (ints, bools, strs, lists, ('ctor', name, args))."""
	if z3.is_int_value(e):
		return e.as_long()
	if z3.is_true(e):
		return True
	if z3.is_false(e):
		return False
	if z3.is_string_value(e):
		return e.as_string().encode('latin-1', 'backslashreplace').decode('unicode_escape') if '\\u{' in e.as_string() else e.as_string()
	if z3.is_seq(e):
		k = e.decl().kind()
		if k == z3.Z3_OP_SEQ_EMPTY:
			return []
		if k == z3.Z3_OP_SEQ_UNIT:
			return [z3_to_py(e.arg(0))]
		if k == z3.Z3_OP_SEQ_CONCAT:
			out: list[Any] = []
			for c in e.children():
				out.extend(z3_to_py(c))
			return out
		return ('?', e.sexpr())
	if z3.is_app(e) and e.sort().kind() == z3.Z3_DATATYPE_SORT:
		return ('ctor', e.decl().name(), [z3_to_py(c) for c in e.children()])
	return ('?', e.sexpr())


_STR_ESC = re.compile(r'\\u\{([0-9a-fA-F]+)\}')


def _unescape(s: str) -> str:
	return _STR_ESC.sub(lambda m: chr(int(m.group(1), 16)), s)


def _z3_run(text: str, want: list[str], timeout_ms: int) -> tuple[str, float, dict[str, Any] | None, str]:
	t0 = time.time()
	ctx = z3.Context()
	s = z3.Solver(ctx=ctx)
	s.set('timeout', timeout_ms)
	try:
		s.from_string(text)
		r = s.check()
	except z3.Z3Exception as e:
		return 'error', time.time() - t0, None, str(e)
	dt = time.time() - t0
	if r == z3.unsat:
		return 'unsat', dt, None, ''
	if r == z3.sat:
		m = s.model()
		vals: dict[str, Any] = {}
		decls = {d.name(): d for d in m.decls()}
		for name in want:
			d = decls.get(name)
			if d is not None and d.arity() == 0:
				v = m.eval(d(), model_completion=True)
				pv = z3_to_py(v)
				vals[name] = _deep_unescape(pv)
		return 'sat', dt, vals, str(m)[:4000]
	return 'unknown', dt, None, s.reason_unknown()


def _deep_unescape(v: Any) -> Any:
	if isinstance(v, str):
		return _unescape(v)
	if isinstance(v, list):
		return [_deep_unescape(x) for x in v]
	if isinstance(v, tuple):
		return tuple(_deep_unescape(x) for x in v)
	return v


def _cvc5_run(text: str, timeout_ms: int) -> tuple[str, float, str]:
	import cvc5
	t0 = time.time()
	try:
		cs = cvc5.Solver()
		cs.setOption('strings-exp', 'true')
		cs.setOption('tlimit-per', str(timeout_ms))
		cs.setLogic('ALL')
		sm = cvc5.SymbolManager(cs)
		p = cvc5.InputParser(cs, sm)
		body = text.replace('(check-sat)', '')
		p.setStringInput(cvc5.InputLanguage.SMT_LIB_2_6, body, 'q')
		while True:
			c = p.nextCommand()
			if c.isNull():
				break
			c.invoke(cs, sm)
		r = cs.checkSat()
	except Exception as e:  # parser / unsupported symbol: undecided, never a verdict
		return 'error', time.time() - t0, str(e)[:300]
	dt = time.time() - t0
	if r.isUnsat():
		return 'unsat', dt, ''
	if r.isSat():
		return 'sat', dt, ''
	return 'unknown', dt, str(r)


CVC5_CLI = '/usr/bin/cvc5'


def _cvc5_cli_run(text: str, timeout_ms: int) -> tuple[str, float, str]:
	"""cvc5 1.0.3 command line (an independent build with different string/sequence heuristics than the 1.4.0 Python binding)."""
	import subprocess
	import tempfile
	if not os.path.exists(CVC5_CLI):
		return 'error', 0.0, 'cvc5 CLI not installed'
	t0 = time.time()
	with tempfile.NamedTemporaryFile('w', suffix='.smt2', delete=False) as f:
		f.write('(set-logic ALL)\n' + text)
		path = f.name
	try:
		r = subprocess.run([CVC5_CLI, '--strings-exp', f'--tlimit={timeout_ms}', path], capture_output=True, text=True, timeout=timeout_ms / 1000 + 10)
		out = r.stdout.strip().splitlines()
		v = out[0] if out else 'error'
		if 'Parse Error' in (r.stdout + r.stderr) and os.environ.get('PYVC_KEEP_PARSE_ERRORS'):
			import shutil
			shutil.copy(path, os.environ['PYVC_KEEP_PARSE_ERRORS'])
		return (v if v in ('sat', 'unsat', 'unknown') else 'error'), time.time() - t0, (r.stdout + r.stderr)[:300]
	except Exception as e:  # noqa: BLE001
		return 'error', time.time() - t0, str(e)[:200]
	finally:
		os.unlink(path)


@dataclass
class Result:
	verdict: str  # proved | refuted | unknown | error
	backend: str
	seconds: float
	model: dict[str, Any] | None = None
	detail: str = ''
	tried: list[str] = field(default_factory=list)


def discharge_text(text: str, want: list[str], z3_ms: int | None = None, cvc5_ms: int | None = None) -> Result:
	z3_ms = z3_ms or Z3_TIMEOUT_MS
	cvc5_ms = cvc5_ms if cvc5_ms is not None else CVC5_TIMEOUT_MS
	stringy = ('str.' in text) or ('seq.' in text)
	if cvc5_ms < 0:
		v, dt, model, detail = _z3_run(text, want, z3_ms)
		if v == 'unsat':
			return Result('proved', 'z3', dt)
		if v == 'sat':
			return Result('refuted', 'z3', dt, model, detail)
		return Result('unknown', 'z3', dt, None, f'z3: {v} {detail}', tried=['z3:' + v])
	# Non-string queries: a short z3 attempt first (milliseconds for most obligations), then cvc5 (1.4.0 binding), cvc5 (1.0.3 CLI), z3 in full.
	# String/sequence queries: the two cvc5 builds first -- z3's sequence solver overruns its own timeout by an order of magnitude --
	# and z3 last (it is the back end that yields counter-models).
	v, dt, model, detail = 'skipped', 0.0, None, ''
	hard = any(nm in text for nm in ('rf_split', 'rf_join', 'rf_replace_all', 'rf_spec_out_path'))  # recursive string functions: z3 overruns its timeout on these
	if not hard:
		v, dt, model, detail = _z3_run(text, want, min(z3_ms, Z3_FIRST_MS))
		if v == 'unsat':
			return Result('proved', 'z3', dt)
		if v == 'sat':
			return Result('refuted', 'z3', dt, model, detail)
	# the 1.0.3 command-line build first (hard process time limit, strong on strings), then the 1.4.0 binding
	v2, dt2, detail2 = _cvc5_cli_run(text, cvc5_ms)
	if v2 == 'unsat':
		return Result('proved', 'cvc5-cli', dt + dt2, tried=['z3:' + v])
	if v2 != 'sat':
		v4, dt4, detail4 = _cvc5_run(text, cvc5_ms)
		dt2 += dt4
		if v4 == 'unsat':
			return Result('proved', 'cvc5', dt + dt2, tried=['z3:' + v, 'cvc5-cli:' + v2])
		if v4 == 'sat':
			v2 = 'sat'
	v3, dt3, model, detail3 = _z3_run(text, want, z3_ms)
	dt += dt3
	if v3 == 'unsat':
		return Result('proved', 'z3', dt + dt2, tried=['cvc5:' + v2])
	if v3 == 'sat':
		return Result('refuted', 'z3', dt + dt2, model, detail3)
	v, detail = v3, detail3
	if v2 == 'sat':
		return Result('refuted', 'cvc5', dt + dt2, None, 'cvc5: sat (no model extracted)')
	return Result('unknown', 'z3+cvc5', dt + dt2, None, f'z3: {v} {detail}; cvc5: {v2} {detail2}', tried=['z3:' + v, 'cvc5:' + v2])


def _job(args: tuple[str, list[str], int | None, int | None]) -> Result:
	return discharge_text(*args)


def discharge_many(jobs: list[tuple[str, list[str], int | None, int | None]], workers: int | None = None) -> list[Result]:
	if not jobs:
		return []
	workers = workers or int(os.environ.get('PYVC_WORKERS', str(os.cpu_count() or 4)))
	if workers <= 1 or len(jobs) == 1:
		return [_job(j) for j in jobs]
	with ProcessPoolExecutor(max_workers=min(workers, len(jobs))) as ex:
		return list(ex.map(_job, jobs, chunksize=1))


_light_cache: dict[int, bool] = {}
_quick_cache: dict[tuple, bool] = {}
_keep_alive: list = []


HEAVY_FUNCS: set[str] = set()


def _is_light(e) -> bool:
	"""No quantifiers (and no recursive function whose definition has quantifiers): cheap for an in-process feasibility probe."""
	i = e.get_id()
	r = _light_cache.get(i)
	if r is not None:
		return r
	ok = True
	stack = [e]
	seen = set()
	while stack:
		x = stack.pop()
		xi = x.get_id()
		if xi in seen:
			continue
		seen.add(xi)
		if z3.is_quantifier(x):
			ok = False
			break
		if z3.is_app(x):
			if HEAVY_FUNCS and x.decl().name() in HEAVY_FUNCS:
				ok = False
				break
			stack.extend(x.children())
	_light_cache[i] = ok
	_keep_alive.append(e)
	return ok


def quick_unsat(assumptions: list[z3.BoolRef], ms: int = 60) -> bool:
	"""In-process feasibility pruning: True only when z3 proves the conjunction unsatisfiable.
	Heavy assumptions (quantifiers, recursive definitions) are dropped first -- dropping premises can only lose pruning, never soundness."""
	light = [a for a in assumptions if _is_light(a)]
	key = tuple(sorted(a.get_id() for a in light))
	r = _quick_cache.get(key)
	if r is not None:
		return r
	s = z3.Solver()
	s.set('timeout', ms)
	for a in light:
		s.add(a)
	r = s.check() == z3.unsat
	_quick_cache[key] = r
	return r


def simp(t):
	"""z3.simplify, unless the result contains z3-internal symbols (seq.nth_i / seq.nth_u) that other solvers reject."""
	r = z3.simplify(t)
	if z3.is_true(r) or z3.is_false(r) or z3.is_int_value(r):
		return r
	return t
