"""Native (CPython) reading of contracts: replay of counterexamples and the bounded twin.

The same clause text that the engine translates to SMT is evaluated here with `eval` on real values, against the
real function imported from /repo.
"""
from __future__ import annotations

import ast
import copy
import importlib
import os
import sys
from typing import Any, Callable

from . import source
from .api import REG, Contract, fzero, implies, init, last

REPO = source.REPO


def import_real(file: str, qualname: str) -> Any:
	if REPO not in sys.path:
		sys.path.insert(0, REPO)
	modname = file[:-3].replace('/', '.')
	mod = importlib.import_module(modname)
	obj: Any = mod
	parts = qualname.split('.')
	cls = None
	for i, p in enumerate(parts):
		name = p
		if cls is not None and p.startswith('__') and not p.endswith('__'):
			name = f'_{cls.__name__.lstrip("_")}{p}'
		obj = getattr(obj, name)
		if isinstance(obj, type):
			cls = obj
	return obj


def _veq(a: Any, b: Any) -> bool:
	"""Equality as the SMT reading has it: floats are compared as values of an uninterpreted sort, so NaN equals NaN; type-strict for int vs float vs bool inside unions."""
	import math
	if isinstance(a, float) and isinstance(b, float):
		return (math.isnan(a) and math.isnan(b)) or a == b
	if isinstance(a, (list, tuple)) and isinstance(b, (list, tuple)) and len(a) == len(b):
		return type(a) is type(b) and all(_veq(x, y) for x, y in zip(a, b)) if not (isinstance(a, tuple) != isinstance(b, tuple)) else all(_veq(x, y) for x, y in zip(a, b))
	return a == b


class _OldRewriter(ast.NodeTransformer):
	def visit_Compare(self, node: ast.Compare) -> Any:
		self.generic_visit(node)
		if len(node.ops) == 1 and isinstance(node.ops[0], (ast.Eq, ast.NotEq)):
			call = ast.Call(ast.Name('__veq__', ast.Load()), [node.left, node.comparators[0]], [])
			return call if isinstance(node.ops[0], ast.Eq) else ast.UnaryOp(ast.Not(), call)
		return node

	def visit_Call(self, node: ast.Call) -> Any:
		self.generic_visit(node)
		if isinstance(node.func, ast.Name) and node.func.id == 'old':
			return ast.Call(ast.Name('__old_eval__', ast.Load()), [ast.Constant(ast.unparse(node.args[0]))], [])
		if isinstance(node.func, ast.Name) and node.func.id == 'implies' and len(node.args) == 2:
			# lazy reading: the consequent is only evaluated when the antecedent holds
			return ast.BoolOp(ast.Or(), [ast.UnaryOp(ast.Not(), node.args[0]), node.args[1]])
		return node


def native_ns(extra: dict[str, Any] | None = None) -> dict[str, Any]:
	ns: dict[str, Any] = {'implies': implies, 'init': init, 'last': last, 'fzero': fzero}
	ns.update(REG.consts)
	for name, sp in REG.specs.items():
		ns[name] = sp.fn
		g = getattr(sp.fn, '__globals__', None)
		if g is not None:
			# spec functions run natively inside their own module: give them the native readings of externals and helpers
			for k, f in REG.replays.items():
				g.setdefault(k, f)
			for k, f in (('implies', implies), ('init', init), ('last', last), ('fzero', fzero)):
				g.setdefault(k, f)
	for name, lm in REG.lemmas.items():
		ns[name] = lambda *a, **k: True
	for name, fn in REG.replays.items():
		ns[name] = fn
	if extra:
		ns.update(extra)
	return ns


def eval_clause(text: str, ns: dict[str, Any], old_ns: dict[str, Any] | None = None) -> Any:
	tree = ast.parse(text, mode='eval')
	tree = ast.fix_missing_locations(_OldRewriter().visit(tree))
	env = dict(ns)
	env['__veq__'] = _veq
	if old_ns is not None:
		env['__old_eval__'] = lambda src: eval(src, dict(old_ns))
	return eval(compile(tree, '<contract>', 'eval'), env)


class NativeOutcome:
	def __init__(self, status: str, detail: str, clause: str = '', actual: Any = None):
		self.status = status  # ok | violated | pre-false | error
		self.detail = detail
		self.clause = clause
		self.actual = actual

	def __repr__(self) -> str:
		return f'{self.status}: {self.detail}'


def exc_names(e: BaseException) -> list[str]:
	out = []
	for k in type(e).__mro__:
		out.append(k.__name__)
		q = getattr(k, '__qualname__', k.__name__)
		out.append(q)
	return out


def check_native(c: Contract, inputs: dict[str, Any], call: Callable[..., Any] | None = None) -> NativeOutcome:
	"""Evaluate the contract on one concrete input against the real function."""
	prep = REG.replays.get(f'{c.replay}__prep') if c.replay else None
	if prep is not None:
		inputs = prep(dict(inputs))
	ns = native_ns({**c.consts, **dict(inputs)})
	try:
		for r in c.requires + c.native_requires:
			if not eval_clause(r, ns):
				return NativeOutcome('pre-false', f'requires not satisfied: {r}')
	except Exception as e:
		return NativeOutcome('pre-false', f'requires not evaluable: {type(e).__name__}: {e}')
	try:
		for k, expr in c.lets.items():
			ns[k] = eval_clause(expr, ns)
	except Exception as e:
		return NativeOutcome('pre-false', f'let not evaluable: {type(e).__name__}: {e}')
	old_ns = native_ns({**c.consts, **copy.deepcopy(dict(inputs))})
	for k in c.lets:
		old_ns[k] = ns[k]
	adapter = REG.replays.get(c.replay) if c.replay else None
	fn = call or adapter or import_real(c.file, c.qualname)
	src = source.load(c.file).funcs[c.qualname]
	argnames = [a.arg for a in src.node.args.posonlyargs + src.node.args.args]
	if src.kind in ('method', 'classmethod', 'property') and call is None and adapter is None:
		argnames = argnames[1:]
	args = {k: v for k, v in inputs.items() if k in argnames or k in [a.arg for a in src.node.args.kwonlyargs]}
	if adapter is not None and call is None:
		import inspect
		sig = inspect.signature(adapter)
		if any(p.kind == p.VAR_KEYWORD for p in sig.parameters.values()):
			args = dict(inputs)
		else:
			args = {k: v for k, v in inputs.items() if k in sig.parameters}
	exact = {e: cond for e, cond in c.raises.items() if cond is not None}
	try:
		result = fn(**args)
	except BaseException as e:  # noqa: BLE001 - the contract decides what may escape
		names = exc_names(e)
		allowed = [k for k in c.raises if k in names or k.split('.')[-1] in names]
		if not allowed:
			return NativeOutcome('violated', f'{type(e).__qualname__} escaped ({e!s:.120}) but raises allows only {sorted(c.raises)}', 'raises', repr(e))
		conds = [c.raises[k] for k in allowed]
		if all(cd is not None for cd in conds):
			try:
				if not any(eval_clause(cd, old_ns) for cd in conds):  # type: ignore[arg-type]
					return NativeOutcome('violated', f'{type(e).__qualname__} raised although none of {conds} holds', 'raises-only-if', repr(e))
			except Exception as e2:
				return NativeOutcome('error', f'raises condition not evaluable: {e2}')
		return NativeOutcome('ok', f'raised {type(e).__qualname__} as allowed')
	ns['result'] = result
	try:
		for e_name, cond in exact.items():
			if eval_clause(cond, old_ns):
				return NativeOutcome('violated', f'returned normally although {e_name} is required when {cond}', f'raises-iff:{e_name}', repr(result))
		for cl in c.ensures + c.bounded_ensures:
			if not eval_clause(cl, ns, old_ns):
				return NativeOutcome('violated', f'postcondition false: {cl}', cl, repr(result))
	except Exception as e:
		return NativeOutcome('error', f'postcondition not evaluable natively: {type(e).__name__}: {e}')
	return NativeOutcome('ok', 'contract holds on this input', actual=repr(result))
