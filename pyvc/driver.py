"""Per-property orchestration: obligations -> solvers -> native replay / bounded twin -> verdict, evidence, exit code.

Exit 0: every obligation discharged (known findings reproduced are printed as KNOWN-FINDING lines).
Exit 1: VIOLATION line(s) printed.  Exit 3: machinery fault (never a verdict).
`unknown`, timeouts and engine errors are never mapped to a violation.
"""
from __future__ import annotations

import importlib
import json
import os
import random
import sys
import time
import traceback
from dataclasses import dataclass, field
from typing import Any, Callable, Iterator

VERIF = os.path.dirname(os.path.dirname(os.path.abspath(__file__)))

from . import source  # noqa: E402
from .api import REG, Contract  # noqa: E402
from .native import NativeOutcome, check_native  # noqa: E402
from .run import ObResult, RunReport, run  # noqa: E402
from .values import EngineError, model_to_py  # noqa: E402

BASELINE_FILE = os.path.join(VERIF, 'baseline_obligations.json')
KNOWN_FILE = os.path.join(VERIF, 'known_findings.json')


@dataclass
class Extra:
	"""Result of a non-VC sub-check (closed obligation by evaluation, bounded twin, pipeline witness)."""
	name: str
	kind: str  # closed | bounded | witness | lint
	ok: bool
	cases: int = 0
	detail: str = ''
	violation: dict[str, Any] | None = None  # {'what':..., 'inputs':..., 'function':...}
	exhaustive: bool = False
	bound: str = ''
	samples: list[Any] = field(default_factory=list)
	finding_key: str | None = None


@dataclass
class Violation:
	prop: str
	what: str
	function: str
	obligation: str
	clause: str
	inputs: dict[str, Any] | None
	native: str
	solver: str
	key: str  # stable identity used to match known findings


def strip_inst(label: str) -> str:
	import re
	return re.sub(r'\[[^\]]*=[^>]*?\](?=>|$)', '', label)


def ob_key(r: ObResult) -> str:
	return f'{strip_inst(r.ob.func)}|{r.ob.kind.split("#")[0]}|{r.ob.clause}'


def load_known() -> dict[str, Any]:
	if os.path.exists(KNOWN_FILE):
		return json.load(open(KNOWN_FILE))
	return {'findings': [], 'fixed': []}


def load_baseline() -> dict[str, list[str]]:
	if os.path.exists(BASELINE_FILE):
		return json.load(open(BASELINE_FILE))
	return {}


SOURCES_FILE = os.path.join(VERIF, 'baseline_sources.json')


def current_sources() -> dict[str, str]:
	"""sha1 of every repository file the VC generator read on this run."""
	import hashlib
	from . import source as _src
	return {f: hashlib.sha1(m.text.encode('utf-8')).hexdigest() for f, m in _src._cache.items()}


def changed_sources(prop: str) -> list[str]:
	"""Files whose text differs from the committed baseline of this property (empty on the unchanged tree)."""
	if not os.path.exists(SOURCES_FILE):
		return []
	base = json.load(open(SOURCES_FILE)).get(prop, {})
	cur = current_sources()
	return sorted(f for f in set(base) | set(cur) if f in base and base.get(f) != cur.get(f))


def concretise(r: ObResult) -> dict[str, Any] | None:
	if not r.res.model:
		return None
	out: dict[str, Any] = dict(r.ob.inst)
	try:
		for cname, ty in r.ob.inputs.items():
			pname = cname.split('!')[0]
			if cname in r.res.model:
				out[pname] = model_to_py(r.res.model[cname], ty)
			else:
				return None
	except EngineError:
		return None
	return out


TWIN_ERRORS: list[str] = []


def twin_search(c: Contract, gen: Callable[[random.Random, str], Iterator[dict[str, Any]]], seed: int, tier: str, budget_s: float, max_cases: int) -> tuple[int, dict[str, Any] | None, NativeOutcome | None, int]:
	rnd = random.Random(seed)
	t0 = time.time()
	n = 0
	nontrivial = 0
	for inputs in gen(rnd, tier):
		if n >= max_cases or time.time() - t0 > budget_s:
			break
		out = check_native(c, inputs)
		if out.status == 'pre-false':
			continue
		n += 1
		if out.status == 'violated':
			return n, inputs, out, nontrivial
		if out.status == 'ok':
			nontrivial += 1
		elif out.status == 'error':
			TWIN_ERRORS.append(f'{c.qualname}: {out.detail[:200]}')
	return n, None, None, nontrivial


def jsonable(v: Any) -> Any:
	try:
		json.dumps(v)
		return v
	except TypeError:
		if isinstance(v, dict):
			return {str(k): jsonable(x) for k, x in v.items()}
		if isinstance(v, (list, tuple, set)):
			return [jsonable(x) for x in v]
		return repr(v)


def main(argv: list[str] | None = None) -> int:
	import argparse
	ap = argparse.ArgumentParser()
	ap.add_argument('prop')
	ap.add_argument('--tier', default=os.environ.get('VERIF_TIER', 'quick'))
	ap.add_argument('--replay')
	ap.add_argument('--update-baseline', action='store_true')
	ap.add_argument('--verbose', '-v', action='store_true')
	ap.add_argument('--only')
	ap.add_argument('--strict', action='store_true', help='developer mode: any undecided obligation or engine error on this tree is an exit 3')
	a = ap.parse_args(argv)
	tier = a.tier if a.tier in ('quick', 'thorough') else 'quick'
	seed = int(os.environ.get('VERIF_SEED', '0') or 0)
	prop = a.prop.upper()
	try:
		return _main(prop, tier, seed, a)
	except SystemExit:
		raise
	except Exception:
		traceback.print_exc()
		print(f'MACHINERY-FAULT property={prop}: driver crashed (exit 3, not a verdict)')
		return 3


def _main(prop: str, tier: str, seed: int, a: Any) -> int:
	t_start = time.time()
	source.reset_cache()
	mod = importlib.import_module(f'contracts.{prop.lower()}')
	if a.replay:
		return replay_file(prop, mod, a.replay)
	known = load_known()
	baseline = load_baseline().get(prop, [])
	contracts = [c for c in REG.contracts.values() if prop in c.props and (not a.only or a.only in c.qualname)]
	lemmas = [l for l in REG.lemmas.values() if prop in l.props and (not a.only or a.only in l.name)]
	# known findings: reproduce the stored witness natively; active ones exclude their predicate from the contract
	known_lines: list[str] = []
	active_known: dict[str, Any] = {}
	for kf in known.get('findings', []):
		if kf['property'] != prop:
			continue
		still = reproduce_known(mod, kf)
		if still:
			known_lines.append(f'KNOWN-FINDING: property={prop} {kf["id"]}: {kf["what"]}')
			active_known[kf['id']] = kf
	saved_requires: dict[tuple[str, str], list[str]] = {}
	saved_native: dict[tuple[str, str], list[str]] = {}
	for c in contracts:
		for kid in c.known:
			kf = active_known.get(kid)
			if kf and kf.get('exclude'):
				ex = kf['exclude'].get(c.qualname) if isinstance(kf['exclude'], dict) else kf['exclude']
				if not ex:
					continue
				if kf.get('exclude_native_only'):
					saved_native.setdefault(c.key, list(c.native_requires))
					c.native_requires = c.native_requires + [f'not ({ex})']
				else:
					saved_requires.setdefault(c.key, list(c.requires))
					c.requires = c.requires + [f'not ({ex})']
	z3_ms = 10000 if tier == 'quick' else 30000
	cvc5_ms = 30000 if tier == 'quick' else 120000
	rep = run(prop, contracts, lemmas, z3_ms, cvc5_ms)
	gens: dict[str, Any] = getattr(mod, 'TWINS', {})
	violations: list[Violation] = []
	undecided: list[str] = []
	bounded: list[dict[str, Any]] = []
	machinery: list[str] = []
	# ---- failed obligations
	last_resort_candidates: list[tuple[ObResult, str]] = []

	def last_resort_still_open(r: ObResult) -> bool:
		"""One more attempt, alone, with four times the budgets: a time-out under load must not turn into a reported violation."""
		from .smt import discharge_text
		res = discharge_text(r.text, r.ob.want, 4 * z3_ms, 4 * cvc5_ms)
		if res.verdict == 'proved':
			r.ok = True
			r.res = res
			return False
		if res.verdict == 'refuted':
			r.res = res
		return True
	by_func_done: set[str] = set()
	for r in rep.results:
		if r.ok:
			continue
		if r.ob.expect == 'sat':
			if r.ob.kind == 'cover:requires':
				machinery.append(f'vacuous precondition: {r.ob.name}')
			else:
				undecided.append(f'{r.ob.name}: loop body unreachable under its invariant (cover)')
			continue
		c = find_contract(r.ob.func)
		key = ob_key(r)
		inputs = concretise(r) if r.res.verdict == 'refuted' else None
		native: NativeOutcome | None = None
		if inputs is not None and c is not None:
			try:
				native = check_native(c, inputs)
			except Exception as e:  # noqa: BLE001
				native = NativeOutcome('error', f'{type(e).__name__}: {e}')
		if native is not None and native.status == 'violated':
			violations.append(Violation(prop, native.detail, r.ob.func, r.ob.name, r.ob.clause, inputs, native.detail, r.res.detail[:1500], key))
			continue
		# model did not replay (loop-head state, ghost fact, abstract object): a declared end-to-end witness, then the bounded twin
		if c is not None and c.witness and hasattr(mod, c.witness) and f'w:{c.witness}' not in by_func_done:
			by_func_done.add(f'w:{c.witness}')
			try:
				okw, why = getattr(mod, c.witness)()
			except Exception as e:  # noqa: BLE001
				okw, why = False, f'{type(e).__name__}: {e}'
			if okw:
				violations.append(Violation(prop, why, r.ob.func, r.ob.name, r.ob.clause, {'witness': c.witness, 'observed': why}, why, (json.dumps(jsonable(r.res.model))[:800] if r.res.model else r.res.detail[:800]), key))
				continue
		found = None
		if c is not None and c.qualname in gens and r.ob.func not in by_func_done:
			n, inp, out, _ = twin_search(c, gens[c.qualname], seed, tier, 20.0, 200000)
			by_func_done.add(r.ob.func)
			if inp is not None and out is not None:
				found = (inp, out)
		if found:
			violations.append(Violation(prop, found[1].detail, r.ob.func, r.ob.name, r.ob.clause, found[0], found[1].detail, r.res.detail[:1500], key))
		elif r.res.verdict == 'refuted' and (key in baseline or (r.ob.kind.startswith('raises') and f'{strip_inst(r.ob.func)}|raises-clause' in baseline)):
			violations.append(Violation(prop, f'obligation discharged on the unchanged tree now has a counter-model: {r.ob.clause}', r.ob.func, r.ob.name, r.ob.clause, None,
				native.detail if native else 'model not concretisable', (json.dumps(jsonable(r.res.model))[:1500] if r.res.model else '') + '\n' + r.res.detail[:1500], key))
		elif r.res.verdict == 'unknown' and key in baseline and changed_sources(prop):
			# discharged on the committed baseline, no longer discharged now that the source text differs: a candidate for the last-resort attempt below
			last_resort_candidates.append((r, key))
			undecided.append(f'{r.ob.name}: {r.res.verdict} ({r.res.detail[:120]})')
		else:
			undecided.append(f'{r.ob.name}: {r.res.verdict} ({r.res.detail[:120]})')
	# ---- engine errors: function left the subset / disappeared -> bounded twin only
	for e in rep.engine_errors:
		undecided.append(f'engine: {e[:300]}')
		for c in contracts:
			if f'{c.file}:{c.qualname}' in e and c.qualname in gens:
				n, inp, out, _ = twin_search(c, gens[c.qualname], seed, tier, 20.0, 200000)
				if inp is not None and out is not None:
					violations.append(Violation(prop, out.detail, f'{c.file}:{c.qualname}', 'bounded-twin (function outside the verified subset on this run)', out.clause, inp, out.detail, e[:300], f'{c.qualname}|twin|{out.clause}'))
	# ---- bounded twin on every run (native contract evaluation on the real code; never counted as proved)
	budget = 3.0 if tier == 'quick' else 30.0
	cases_cap = 3000 if tier == 'quick' else 200000
	for c in contracts:
		if c.qualname in gens and not any(v.function.endswith(c.qualname) or c.qualname in v.function for v in violations):
			try:
				n, inp, out, nt = twin_search(c, gens[c.qualname], seed, tier, budget, cases_cap)
			except Exception as e:  # noqa: BLE001
				machinery.append(f'twin {c.qualname}: {type(e).__name__}: {e}')
				continue
			bounded.append({'function': c.qualname, 'cases': n, 'contract_held': nt, 'kind': 'bounded twin: native contract evaluation on generated inputs', 'exhaustive': False})
			if inp is not None and out is not None:
				violations.append(Violation(prop, out.detail, f'{c.file}:{c.qualname}', 'bounded-twin', out.clause, inp, out.detail, '', f'{c.qualname}|twin|{out.clause}'))
	# ---- property-specific extra checks (closed obligations by evaluation, pipeline witnesses, bounded stand-ins)
	extras: list[Extra] = []
	if hasattr(mod, 'extra_checks') and not a.only:
		try:
			extras = list(mod.extra_checks(tier, seed, active_known))
		except Exception as e:  # noqa: BLE001
			machinery.append(f'extra_checks crashed: {type(e).__name__}: {e}\n{traceback.format_exc()}')
	for x in extras:
		if not x.ok and x.violation is not None:
			violations.append(Violation(prop, x.violation.get('what', x.detail), x.violation.get('function', x.name), x.name, x.violation.get('clause', ''), x.violation.get('inputs'), x.detail, '', x.finding_key or x.name))
		elif not x.ok:
			machinery.append(f'extra check {x.name} failed without a witness: {x.detail}')
	# ---- obligations of the baseline that are no longer discharged after a source change: only when nothing else reports a violation, at most two of them get one
	# more attempt, alone, with four-fold budgets; what is still open then is reported (as not refuted)
	if not [v for v in violations if match_known(v, active_known) is None]:
		for r, key in last_resort_candidates[:2]:
			if last_resort_still_open(r):
				undecided[:] = [u for u in undecided if not u.startswith(r.ob.name + ':')]
				violations.append(Violation(prop, f'obligation discharged on the unchanged tree is no longer discharged after the change of {", ".join(changed_sources(prop))[:200]} (no counter-model: not refuted): {r.ob.clause}',
					r.ob.func, r.ob.name, r.ob.clause, None, 'no model', r.res.detail[:1500], key))
			else:
				undecided[:] = [u for u in undecided if not u.startswith(r.ob.name + ':')]
	# ---- restore contracts mutated for known findings
	for c in contracts:
		if c.key in saved_requires:
			c.requires = saved_requires[c.key]
		if c.key in saved_native:
			c.native_requires = saved_native[c.key]
	# ---- filter violations that are listed known findings
	reported: list[Violation] = []
	for v in violations:
		kf = match_known(v, active_known)
		if kf is not None:
			continue
		reported.append(v)
	# ---- output
	os.makedirs(os.path.join(VERIF, 'evidence'), exist_ok=True)
	os.makedirs(os.path.join(VERIF, 'replays'), exist_ok=True)
	for line in known_lines:
		print(line)
	n_ob = sum(1 for r in rep.results if r.ob.expect == 'proved')
	n_ok = sum(1 for r in rep.results if r.ob.expect == 'proved' and r.ok)
	seen_keys: set[str] = set()
	vio_lines = []
	for i, v in enumerate(reported):
		if v.key in seen_keys:
			continue
		seen_keys.add(v.key)
		path = os.path.join(VERIF, 'replays', f'{prop}_{len(seen_keys)}.json')
		json.dump({'property': prop, 'function': v.function, 'obligation': v.obligation, 'clause': v.clause, 'what': v.what,
			'inputs': jsonable(v.inputs), 'native': v.native, 'solver_output': v.solver, 'key': v.key,
			'rerun': f'cd /verif && ./check {prop} --replay {path}'}, open(path, 'w'), indent=1, ensure_ascii=False)
		suffix = '' if v.inputs is not None else ' no-failing-input-found'
		vio_lines.append(f'VIOLATION property={prop} replay={path}{suffix}')
	by_backend: dict[str, int] = {}
	for r in rep.results:
		if r.ok and r.ob.expect == 'proved':
			by_backend[r.res.backend] = by_backend.get(r.res.backend, 0) + 1
	samples = []
	for r in rep.results[:400]:
		if r.ob.expect == 'proved' and r.ob.kind in ('post', 'inv-pres', 'lemma') and len(samples) < 3:
			samples.append({'obligation': r.ob.name, 'clause': r.ob.clause, 'verdict': r.res.verdict, 'backend': r.res.backend, 'seconds': round(r.res.seconds, 3), 'smtlib_head': r.text[:600]})
	closed = [x for x in extras if x.kind == 'closed']
	evidence = {
		'property_id': prop, 'tier': tier, 'seed': seed, 'level': getattr(mod, 'LEVEL', 'proof'),
		'coverage': {
			'obligations': n_ob, 'discharged': n_ok,
			'checker_cmd': f'cd /verif && ./check {prop} --tier {tier}',
			'trusted_base': getattr(mod, 'TRUSTED_BASE', []) + ['z3 5.1.0 / cvc5 1.4.0 are sound', 'pyvc encoding of the Python subset (ints mathematical, str = SMT String, list = Seq, dict = (domain, values) arrays; cross-checked against CPython by the bounded twin on every run)'],
			'by_backend': by_backend,
			'solver_time_s': round(sum(r.res.seconds for r in rep.results), 2),
			'generation_s': round(rep.gen_seconds, 2),
			'functions_under_contract': rep.functions,
			'inlined_callees': rep.inlined,
			'lemmas': [l.name for l in lemmas],
			'covers': {'total': sum(1 for r in rep.results if r.ob.expect == 'sat'), 'satisfiable_or_open': sum(1 for r in rep.results if r.ob.expect == 'sat' and r.ok)},
			'undecided': undecided,
			'closed_obligations_by_evaluation': [{'name': x.name, 'ok': x.ok, 'cases': x.cases, 'detail': x.detail[:300]} for x in closed],
			'bounded_checks': bounded + [{'function': x.name, 'cases': x.cases, 'kind': x.kind, 'bound': x.bound, 'exhaustive': x.exhaustive, 'ok': x.ok, 'detail': x.detail[:300]} for x in extras if x.kind != 'closed'],
			'dropped_by_extraction': source.DROPPED,
			'known_findings_reproduced': [k for k in active_known],
			'samples': samples + [s for x in extras for s in x.samples[:2]],
			'slowest': [{'obligation': r.ob.name, 'seconds': round(r.res.seconds, 2), 'backend': r.res.backend} for r in sorted(rep.results, key=lambda r: -r.res.seconds)[:5]],
			'explanation': getattr(mod, 'EXPLANATION', ''),
			'evaluations': sum(b['cases'] for b in bounded) + sum(x.cases for x in extras),
			'distinct_nontrivial': sum(b.get('contract_held', 0) for b in bounded) + sum(getattr(x, 'distinct', x.cases) for x in extras),
			'rule': getattr(mod, 'RULE', 'bounded twin: generated inputs on which the native reading of the contract is evaluated against the real function; non-trivial = precondition holds and the call completes'),
			'exhaustive': bool(extras) and all(x.exhaustive for x in extras) and not contracts,
		},
		'assumptions': rep.assumptions + getattr(mod, 'ASSUMPTIONS', []),
		'wall_s': round(time.time() - t_start, 2),
		'violations': len(vio_lines),
	}
	json.dump(evidence, open(os.path.join(VERIF, 'evidence', f'{prop}.json'), 'w'), indent=1, ensure_ascii=False)
	if a.update_baseline:
		bl = load_baseline()
		keys = {ob_key(r) for r in rep.results if r.ok and r.ob.expect == 'proved'}
		# a function whose raises clause held (no escaping exception left undischarged) gets a function-level key:
		# a later run in which a disallowed exception can escape is a regression of that clause even though the failing path is new
		funcs = {strip_inst(r.ob.func) for r in rep.results}
		bad_raises = {strip_inst(r.ob.func) for r in rep.results if r.ob.kind.startswith('raises') and not r.ok}
		keys |= {f'{f}|raises-clause' for f in funcs - bad_raises if find_contract(f) is not None}
		bl[prop] = sorted(keys)
		json.dump(bl, open(BASELINE_FILE, 'w'), indent=1, ensure_ascii=False)
		srcs = json.load(open(SOURCES_FILE)) if os.path.exists(SOURCES_FILE) else {}
		srcs[prop] = current_sources()
		json.dump(srcs, open(SOURCES_FILE, 'w'), indent=1, sort_keys=True)
	print(f'{prop}: {n_ok}/{n_ob} obligations discharged ({by_backend}), {len(rep.functions)} functions under contract, {len(lemmas)} lemmas, '
		f'{sum(b["cases"] for b in bounded) + sum(x.cases for x in extras if x.kind == 'bounded')} bounded-twin cases, {len(closed)} closed obligations, {len(undecided)} undecided, wall {time.time() - t_start:.1f}s')
	if a.verbose or undecided:
		for u in undecided[:40]:
			print('  undecided:', u[:400])
	if TWIN_ERRORS:
		machinery.append(f'{len(TWIN_ERRORS)} bounded-twin cases could not be evaluated natively, e.g. {TWIN_ERRORS[0]}')
	for m in machinery:
		print('MACHINERY-FAULT:', m[:600])
	for line in vio_lines:
		print(line)
	if vio_lines:
		return 1
	if machinery or (a.strict and undecided):
		return 3
	if n_ob == 0 and not extras:
		print('MACHINERY-FAULT: zero obligations generated')
		return 3
	return 0


def find_contract(label: str) -> Contract | None:
	# label: 'pkg.mod:Qual.name[inst]' possibly followed by '>inlined'
	base = label.split('[')[0].split('>')[0]
	if ':' not in base:
		return None
	modpart, q = base.split(':', 1)
	file = modpart.replace('.', '/') + '.py'
	return REG.contracts.get((file, q))


def match_known(v: Violation, active: dict[str, Any]) -> Any:
	for kid, kf in active.items():
		keys = kf.get('keys', [])
		if v.key in keys:
			return kf
		fn = kf.get('function')
		if fn and fn in v.function and kf.get('match_clause') and kf['match_clause'] in (v.clause or ''):
			if v.inputs is not None and kf.get('exclude'):
				# a different input of the same clause is only covered when it satisfies the finding's predicate
				from .native import eval_clause, native_ns
				try:
					if not eval_clause(kf['exclude'], native_ns(dict(v.inputs))):
						continue
				except Exception:  # noqa: BLE001
					continue
			return kf
	return None


def reproduce_known(mod: Any, kf: dict[str, Any]) -> bool:
	"""Does the stored witness of a known finding still fail on the current tree?"""
	try:
		if kf.get('witness_fn'):
			return bool(getattr(mod, kf['witness_fn'])(kf))
		c = REG.contracts.get((kf['file'], kf['qualname']))
		if c is None:
			return False
		out = check_native(c, kf['witness'])
		return out.status == 'violated'
	except Exception:  # noqa: BLE001
		traceback.print_exc()
		return False


def replay_file(prop: str, mod: Any, path: str) -> int:
	d = json.load(open(path))
	c = find_contract(d['function']) or next((c for c in REG.contracts.values() if c.qualname in d['function']), None)
	if hasattr(mod, 'replay_hook') and d.get('inputs') is not None:
		r = mod.replay_hook(d)
		if r is not None:
			print(r)
			return 1 if str(r).startswith('violated') else 0
	if c is None and d.get('inputs') is not None:
		# a violation found by a bounded twin / closed table: the file carries the failing program, history or table entry; the scenario is replayed by re-running the check
		print('replay: recorded witness of ' + str(d.get('obligation', ''))[:160] + ':\n' + json.dumps(d['inputs'], ensure_ascii=False)[:3000] + f'\n(re-run `./check {prop}` on the same tree to reproduce it)')
		return 0
	if c is None or d.get('inputs') is None:
		print(f'replay: no concrete input recorded for obligation {d["obligation"]} ({d["clause"]}); solver output follows\n{d["solver_output"]}')
		return 0
	out = check_native(c, d['inputs'])
	print(f'replay {d["function"]} on {d["inputs"]!r}: {out}')
	return 1 if out.status == 'violated' else 0
