"""Obligation generation for one function under contract / one lemma."""
from __future__ import annotations

import ast
import itertools
from typing import Any

import z3

from . import source
from .api import REG, Contract, Lemma
from .engine import Engine, Ev, FnCtx, Oracle, fresh_name
from .stmts import clause_terms, feasible, run_function_body, run_hints
from .ty import NONE, TNone, TRec, Ty
from .values import ClassRef, EngineError, ExcVal, State, Val, py_to_val


def param_types(eng: Engine, fn: FnCtx) -> dict[str, Ty | None]:
	assert fn.src is not None
	c = fn.contract
	out: dict[str, Ty | None] = {}
	a = fn.src.node.args
	allp = a.posonlyargs + a.args + ([a.vararg] if a.vararg else []) + a.kwonlyargs
	for i, p in enumerate(allp):
		if c and p.arg in c.types:
			out[p.arg] = eng.tenv.parse(c.types[p.arg])
			continue
		if i == 0 and fn.src.kind in ('method', 'property', 'classmethod') and p.annotation is None:
			out[p.arg] = None  # cls / untyped self
			continue
		if p.annotation is None:
			raise EngineError(f'parameter {p.arg} of {fn.label} has no annotation: give a type in the contract')
		try:
			t = eng.ty(p.annotation, fn)
		except TypeError as e:
			raise EngineError(f'parameter {p.arg} of {fn.label}: {e} (give a type in the contract)')
		if a.vararg is p:
			from .ty import TList
			t = TList(t)  # type: ignore[arg-type]
		out[p.arg] = t
	return out


def check_record_sources(eng: Engine) -> list[str]:
	"""Declared record fields must be exactly the attributes the real __init__ chain assigns."""
	problems = []
	for name, rec in REG.records.items():
		if not rec.source:
			continue
		file, cname = rec.source
		assigned: set[str] = set()
		seen: set[tuple[str, str]] = set()

		def collect(f: str, cn: str) -> None:
			if (f, cn) in seen:
				return
			seen.add((f, cn))
			mod = source.load(f)
			init = mod.funcs.get(f'{cn}.__init__')
			if init is not None:
				for n in ast.walk(init.node):
					if isinstance(n, (ast.Assign, ast.AnnAssign)):
						tg = n.targets if isinstance(n, ast.Assign) else [n.target]
						for t in tg:
							if isinstance(t, ast.Attribute) and isinstance(t.value, ast.Name) and t.value.id == 'self':
								assigned.add(source.mangle(cn, t.attr))
			for bf, bc in source.class_bases(mod, cn):
				collect(bf, bc)

		collect(file, cname)
		if not assigned:
			# NamedTuple / dataclass style: annotated fields in the class body
			cls = source.load(file).classes.get(cname)
			if cls is not None:
				assigned = {st.target.id for st in cls.body if isinstance(st, ast.AnnAssign) and isinstance(st.target, ast.Name)}
		declared = set(rec.fields)
		ghost = {f for f in declared if f.startswith('ghost_')}
		if assigned != declared - ghost:
			problems.append(f'record {name}: declared {sorted(declared - ghost)} but {cname}.__init__ assigns {sorted(assigned)}')
	return problems


def verify_function(eng: Engine, c: Contract, prop: str) -> None:
	mod = source.load(c.file)
	if c.qualname not in mod.funcs:
		raise EngineError(f'function {c.qualname} not found in {c.file} (renamed or removed)')
	src = mod.funcs[c.qualname]
	eng.functions[c.key] = src
	keys = list(c.instantiate)
	combos = list(itertools.product(*[c.instantiate[k] for k in keys])) if keys else [()]
	for combo in combos:
		inst: dict[str, Any] = {}
		for k, v in zip(keys, combo):
			if ',' in k:  # a tuple of names instantiated together (e.g. an (open, close) pair of a table)
				for kk, vv in zip(k.split(','), v):
					inst[kk.strip()] = vv
			else:
				inst[k] = v
		_verify_instance(eng, c, src, prop, inst)


def _verify_instance(eng: Engine, c: Contract, src: source.FuncSrc, prop: str, inst: dict[str, Any]) -> None:
	fn = FnCtx(eng, src, c, prop)
	fn.inst = inst
	if inst:
		fn.label += '[' + ','.join(f'{k}={v!r}' for k, v in inst.items()) + ']'
	ptys = param_types(eng, fn)
	st = State()
	for name, ty in ptys.items():
		if name in inst:
			st.env[name] = py_to_val(inst[name], ty)
			continue
		if ty is None:
			if src.kind == 'classmethod' or name == 'cls':
				st.env[name] = ClassRef(None, cname=fn.cname or '', module=src.file)
			else:
				st.env[name] = Val(None, None)  # untyped self: any use is an EngineError
			continue
		v = eng.fresh(ty, name)
		st.env[name] = v
		fn.want.append(str(v.term))
		fn.inputs[str(v.term)] = ty
	for k, v in c.consts.items():
		st.env[k] = py_to_val(v)
	for k, v in inst.items():
		if k not in ptys and k not in c.ghost_params:
			st.env[k] = py_to_val(v)  # instantiated ghost constant
	for g, t in c.ghost_params.items():
		if g in inst:
			st.env[g] = py_to_val(inst[g], eng.tenv.parse(t))
			continue
		gt = eng.tenv.parse(t)
		v = eng.fresh(gt, g)  # type: ignore[arg-type]
		st.env[g] = v
		fn.want.append(str(v.term))
		fn.inputs[str(v.term)] = gt  # type: ignore[assignment]
	# list / dict parameters mutated in place are visible to the caller: they must be listed under `modifies`
	from .ty import TDict, TList
	MUT = {'append', 'extend', 'insert', 'pop', 'remove', 'clear', 'update', 'sort', 'reverse', 'setdefault', 'popitem'}
	for pname, pty in ptys.items():
		if isinstance(pty, (TList, TDict)) and pname not in c.modifies and not c.hook_only:
			for n in ast.walk(src.node):
				hit = isinstance(n, ast.Call) and isinstance(n.func, ast.Attribute) and isinstance(n.func.value, ast.Name) and n.func.value.id == pname and n.func.attr in MUT
				if isinstance(n, (ast.Assign, ast.AugAssign, ast.Delete)):
					tg = n.targets if not isinstance(n, ast.AugAssign) else [n.target]
					hit = hit or any(isinstance(t, ast.Subscript) and isinstance(t.value, ast.Name) and t.value.id == pname for t in tg)
				if hit:
					raise EngineError(f'{fn.label} mutates its parameter {pname} in place: list it under modifies')
	if c.hook_only:
		if c.post_hook is not None:
			c.post_hook(eng, fn, st.copy())
		return
	for r, t in clause_terms(eng, fn, st, c.requires):
		st.assume(t)
	for k, expr in c.lets.items():
		lv = Ev(eng, fn, st, Oracle([]), 'spec').eval(ast.parse(expr, mode='eval').body)
		lc = eng.fresh(lv.ty, f'let_{k}')  # a named constant keeps the queries small
		st.assume(lc.term == lv.term)
		st.env[k] = lc
	eng.oblige(fn, 'cover:requires', st, None, ' and '.join(c.requires) or 'True', src.lineno, expect='sat')
	old = st.copy()
	fn.entry = old  # type: ignore[attr-defined]
	run_hints(eng, fn, st, c.hints_entry)
	exact = {e: cond for e, cond in c.raises.items() if cond is not None}
	n_normal = 0
	for kind, payload, sx in run_function_body(eng, fn, st):
		if kind == 'return':
			n_normal += 1
			env = dict(sx.env)
			env['result'] = payload
			post = State(env, sx.pc)
			run_hints(eng, fn, post, c.hints_exit, old)
			for cl, t in clause_terms(eng, fn, post, c.ensures, old):
				eng.oblige(fn, 'post', post, t, cl, src.lineno)
			for cl, t in clause_terms(eng, fn, post, c.exit_asserts, old):
				eng.oblige(fn, 'post-local', post, t, cl, src.lineno)
			# frame: record-typed parameters may change only in the fields listed under `modifies`
			for pname, pty in ptys.items():
				if isinstance(pty, TRec) and pname in sx.env and isinstance(sx.env[pname].ty, TRec):
					allowed_f = set()
					for m in c.modifies:
						if m == pname:
							allowed_f = set(pty.fnames())
						elif m.startswith(pname + '.'):
							fld = m[len(pname) + 1:]
							allowed_f.add(fld if fld in pty.fnames() else source.mangle(fn.cname, fld))
					for f in pty.fnames():
						if f in allowed_f:
							continue
						ev2 = Ev(eng, fn, post, Oracle([]), 'spec', old)
						a_ = Val(pty.fty(f), pty.get(sx.env[pname].term, f))
						b_ = Val(pty.fty(f), pty.get(old.env[pname].term, f))
						eng.oblige(fn, 'frame', post, ev2.eq(a_, b_), f'{pname}.{f} unchanged (not in modifies)', src.lineno)
			for e, cond in exact.items():
				(cl, t), = clause_terms(eng, fn, old, [cond])
				eng.oblige(fn, f'raises-iff:{e}', State(old.env, sx.pc), z3.Not(t), f'normal return implies not ({cond})', src.lineno)
		else:
			exc: ExcVal = payload
			if any(eng.exc_subclass(exc.cname, e) for e in c.raise_unchanged):
				for pname, pty in ptys.items():
					if isinstance(pty, TRec) and pname in sx.env and isinstance(sx.env[pname].ty, TRec):
						eng.oblige(fn, f'raise-unchanged:{exc.cname}', sx, sx.env[pname].term == old.env[pname].term, f'{pname} unchanged when {exc.cname} is raised', src.lineno)
			allowed = [e for e in c.raises if eng.exc_subclass(exc.cname, e)]
			if not allowed:
				eng.oblige(fn, f'raises:{exc.cname}', sx, z3.BoolVal(False), f'{exc.cname} may escape but is not in raises {sorted(c.raises)}', src.lineno)
			else:
				conds = [c.raises[e] for e in allowed if c.raises[e] is not None]
				if conds and len(conds) == len(allowed):
					ts = [clause_terms(eng, fn, old, [cd])[0][1] for cd in conds]
					eng.oblige(fn, f'raises-only-if:{exc.cname}', State(old.env, sx.pc), z3.Or(*ts), f'{exc.cname} raised implies ({" or ".join(conds)})', src.lineno)  # type: ignore[arg-type]
	if c.post_hook is not None:
		c.post_hook(eng, fn, old)
	# canary: the negation of the conjunction of the postcondition must be refutable on some normal path
	if c.ensures and n_normal == 0:
		eng.notes.append(f'{fn.label}: no normal path (postcondition vacuous)')


def verify_lemma(eng: Engine, lm: Lemma, prop: str) -> None:
	fn = FnCtx.synthetic(eng, f'lemma:{lm.name}', prop)
	fn.lemma_name = lm.name  # type: ignore[attr-defined]
	st = State()
	for a in lm.node.args.args:
		ty = eng.tenv.parse(a.annotation)
		v = eng.fresh(ty, a.arg)  # type: ignore[arg-type]
		st.env[a.arg] = v
		fn.want.append(str(v.term))
		fn.inputs[str(v.term)] = ty  # type: ignore[assignment]
	for r, t in clause_terms(eng, fn, st, lm.requires):
		st.assume(t)
	eng.oblige(fn, 'cover:requires', st, None, ' and '.join(lm.requires) or 'True', expect='sat')
	if lm.decreases:
		fn.lemma_measure = Ev(eng, fn, st, Oracle([]), 'spec').eval(ast.parse(lm.decreases, mode='eval').body).term  # type: ignore[attr-defined]
	# the body: if-statements and lemma calls (induction hypotheses), executed as code in spec mode
	from .stmts import exec_block
	fake = ast.FunctionDef(name=lm.name, args=lm.node.args, body=[s for s in lm.node.body if not (isinstance(s, ast.Expr) and isinstance(s.value, ast.Constant))] or [ast.Pass()], decorator_list=[], lineno=0)
	for kind, payload, sx in exec_block(eng, fn, fake.body, st):
		if kind not in ('normal', 'return'):
			raise EngineError(f'lemma {lm.name}: body outcome {kind}')
		for cl, t in clause_terms(eng, fn, sx, lm.ensures):
			eng.oblige(fn, 'lemma', sx, t, cl)
